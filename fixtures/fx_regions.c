// Canary fixtures for the region engine (E3): each function violates one memory obligation on a specific shape.
#include <stdint.h>
#include <string.h>

// unsigned 'n - 1' loop bound: wraps for n == 0
void fx_r_wrap(uint64_t n, double* res) {
  for (uint64_t i = 0; i < n - 1; i += 2) {
    res[i] = 0;
    res[i + 1] = 0;
  }
}
// signed counter compared with an unsigned bound (decreasing loop): never ends for r == 0
void fx_r_signed(uint64_t a_size, uint64_t r, int64_t* res, const int64_t* a) {
  int64_t i = a_size - 1;
  for (; i >= r; --i) res[0] += a[i];
}
// off-by-one overrun of the output
void fx_r_overrun(uint64_t n, double* res, const double* a) {
  for (uint64_t i = 0; i <= n; ++i) res[i] = a[0];
}
// pointer loop whose stride does not divide the distance
void fx_r_ptr_ne(uint64_t n, double* res) {
  double* end = res + n;
  while (res != end) {
    res[0] = 0;
    res += 4;
  }
}
// scratch read before it is written
void fx_r_rbw(uint64_t n, double* res, double* tmp) {
  for (uint64_t i = 0; i < n; ++i) res[i] = tmp[i];
  for (uint64_t i = 0; i < n; ++i) tmp[i] = 0;
}
// part of the output is never written
void fx_r_partial(uint64_t n, double* res) {
  for (uint64_t i = 0; i < n / 2; ++i) res[i] = 0;
}
// reads beyond the declared input
void fx_r_overread(uint64_t n, double* res, const double* a) {
  for (uint64_t i = 0; i < n; ++i) res[i] = a[i + 1];
}
// in-place unsafe: re-reads a[i] after writing res[i-1]... reads the neighbour that an aliased call already overwrote
void fx_r_alias_unsafe(uint64_t n, double* res, const double* a) {
  for (uint64_t i = 0; i + 1 < n; ++i) res[i + 1] = a[i];
  res[0] = a[n - 1];
}
// in-place safe elementwise
void fx_r_alias_ok(uint64_t n, double* res, const double* a) {
  for (uint64_t i = 0; i < n; ++i) res[i] = -a[i];
}
// negative control
void fx_r_ok(uint64_t n, double* res, const double* a, double* tmp) {
  for (uint64_t i = 0; i < n; ++i) tmp[i] = a[i];
  for (uint64_t i = 0; i < n; ++i) res[i] = tmp[i];
}

// interval canaries (E5)
// accumulator that exceeds 64 bits for ell = 10000 full-range operands
void fx_i_acc_overflow(uint64_t ell, uint64_t* res, const uint64_t* x) {
  uint64_t acc = 0;
  for (uint64_t i = 0; i < ell; ++i) acc += x[i] >> 10;   // 10000 * 2^54 > 2^64
  res[0] = acc;
}
// 32x32 multiply whose operand is wider than 32 bits and whose high part is dropped
void fx_i_mask32(uint64_t ell, uint64_t* res, const uint64_t* x) {
  uint64_t acc = 0;
  for (uint64_t i = 0; i < ell; ++i) acc += ((x[i] >> 20) & 0xffffffffu) * 3u;
  res[0] = acc;
}
// negative control
void fx_i_ok(uint64_t ell, uint64_t* res, const uint64_t* x) {
  uint64_t acc = 0;
  for (uint64_t i = 0; i < ell; ++i) acc += (x[i] & 0xffffffffu) * (x[i] >> 32) >> 16;
  res[0] = acc;
}
