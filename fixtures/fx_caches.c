// Canary fixtures for the cache rules (C12 warm-up guard, C15 cache keys).
#include <stdint.h>
#include <stdlib.h>

typedef struct fxc_precomp {
  void (*function)(const struct fxc_precomp*, double*, const double*);
  int64_t m;
  double divisor;
} FXC_PRECOMP;

static void fxc_kernel(const FXC_PRECOMP* t, double* r, const double* a) {
  for (int64_t i = 0; i < t->m; ++i) r[i] = a[i] / t->divisor;
}
static uint32_t fxc_log2(uint32_t m) { return 31 - __builtin_clz(m); }

void* fxc_init(FXC_PRECOMP* res, uint32_t m, double divisor) {
  res->m = m;
  res->divisor = divisor;
  res->function = fxc_kernel;
  return res;
}

// C15 canary: cache keyed by the dimension only while the table also depends on the divisor
void fxc_underkeyed_simple(uint32_t m, double divisor, double* r, const double* a) {
  static FXC_PRECOMP p[32];
  FXC_PRECOMP* f = p + fxc_log2(m);
  if (!f->function) fxc_init(f, m, divisor);
  f->function(f, r, a);
}

// negative control: divisor is part of the key
void fxc_ok_simple(uint32_t m, double divisor, double* r, const double* a) {
  static FXC_PRECOMP p[32];
  FXC_PRECOMP* f = p + fxc_log2(m);
  if (!f->function || f->divisor != divisor) fxc_init(f, m, divisor);
  f->function(f, r, a);
}

// C12 canary: shared cache rewritten on every call (no empty-slot guard)
void fxc_unguarded_simple(uint32_t m, double* r, const double* a) {
  static FXC_PRECOMP p[32];
  FXC_PRECOMP* f = p + fxc_log2(m);
  fxc_init(f, m, 1.0);
  f->function(f, r, a);
}

// C12 canary: shared (non thread-local) cache refreshed when a parameter changes -> written after warm-up
void fxc_refresh_simple(uint32_t m, double divisor, double* r, const double* a) {
  static FXC_PRECOMP p[32];
  FXC_PRECOMP* f = p + fxc_log2(m);
  if (!f->function || f->divisor != divisor) fxc_init(f, m, divisor);
  f->function(f, r, a);
}
