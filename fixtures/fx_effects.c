// Canary fixtures for the effect rules (E2). Never linked, never run: compiled to IR and analysed on every
// check run; every rule that is expected to be silent on the library must fire here, else exit 2.
#include <stdint.h>
#include <stdlib.h>
#include <string.h>
#include <immintrin.h>

typedef struct fx_precomp {
  void (*function)(const struct fx_precomp*, double*, const double*);
  int64_t m;
  double* powomegas;
} FX_PRECOMP;

// C18 canary: store through a cast-away-const source operand
void fx_c18_write_const_input(uint64_t n, double* res, const double* a) {
  for (uint64_t i = 0; i < n; ++i) res[i] = a[i];
  ((double*)a)[0] = 0.;  // uses the source as scratch
}

// C18/C12 canary: store through a pointer loaded from the table argument
void fx_c12_write_table_reach(const FX_PRECOMP* tables, double* res, const double* a) {
  tables->powomegas[0] = a[0];
  res[0] = a[0];
}

// C12 canary: a static written on a path reachable from an entry point that takes a const table
static double fx_hidden_state;
static void fx_helper_touch_static(double x) { fx_hidden_state += x; }
void fx_c12_write_static(const FX_PRECOMP* tables, double* res, const double* a) {
  fx_helper_touch_static(a[0]);
  res[0] = a[0] * (double)tables->m;
}

// C18 canary: memcpy into the source
void fx_c18_memcpy_into_input(uint64_t n, double* res, const double* a) {
  memcpy((void*)a, res, n * sizeof(double));
}

// C18 negative control: only reads its input (must stay silent)
void fx_c18_ok(uint64_t n, double* res, const double* a) {
  for (uint64_t i = 0; i < n; ++i) res[i] = 2 * a[i];
}

// alignment canary: aligned vector load from a caller data pointer
void fx_align_load(uint64_t n, double* res, const double* a) {
  for (uint64_t i = 0; i < n; i += 4) {
    __m256d v = _mm256_load_pd(a + i);
    _mm256_storeu_pd(res + i, v);
  }
}
// alignment negative control
void fx_align_ok(uint64_t n, double* res, const double* a) {
  for (uint64_t i = 0; i < n; i += 4) {
    __m256d v = _mm256_loadu_pd(a + i);
    _mm256_storeu_pd(res + i, v);
  }
}

// C14 canary: constant built in int and widened afterwards
double fx_c14_int_shift(uint32_t k) { return 0.5 + (6 << k); }
