"""spqa.modq — symbolic congruence proofs modulo a prime for lazy q120 expressions.

An integer value DAG (E4) is rewritten to a polynomial over Z/q in atoms.  Bit-splitting operations are eliminated with
exact integer identities (valid because E5/C04 shows that no intermediate wraps its 64-bit word):
     and(t, 2^k - 1)      =  t - 2^k * lshr(t, k)
     part(32, 0, t)       =  t - 2^32 * part(32, 1, t)          (low / high halves of a 64-bit lane)
     zext / trunc that provably keep the value are transparent
so that lshr(t, k) and the high halves remain as atoms; a correct split-accumulate-recombine algorithm multiplies them by
constants congruent to 2^k, hence their coefficients vanish modulo q and the remaining polynomial is the plain product."""
from .values import Sym, sym
from .vals import is_int


class ModPoly:
    def __init__(self, q, assume=None, bound=None, rng=None):
        self.q = q
        self.bound = bound    # callable(value) -> upper bound of the value (interval analysis) or None
        self.rng = rng        # callable(value) -> (lo, hi) or None
        self.memo = {}
        self.atoms = {}
        self.assume = assume or (lambda e: None)   # atom rewriting hook: e (tuple) -> polynomial or None

    def atom(self, key):
        a = self.atoms.get(key)
        if a is None:
            a = len(self.atoms)
            self.atoms[key] = a
        return a

    def add(self, p, r, s=1):
        out = dict(p)
        for m, c in r.items():
            v = (out.get(m, 0) + s * c) % self.q
            if v:
                out[m] = v
            else:
                out.pop(m, None)
        return out

    def mul(self, p, r):
        out = {}
        for m1, c1 in p.items():
            for m2, c2 in r.items():
                m = tuple(sorted(m1 + m2))
                v = (out.get(m, 0) + c1 * c2) % self.q
                if v:
                    out[m] = v
                else:
                    out.pop(m, None)
        return out

    def scale(self, p, k):
        return {m: (c * k) % self.q for m, c in p.items() if (c * k) % self.q}

    def of_many(self, roots):
        """iterative bottom-up evaluation (accumulator chains are deep)"""
        order = []
        seen = set()
        for root in roots:
            if not isinstance(root, Sym) or root in seen:
                continue
            stack = [(root, iter([x for x in root.e[1:] if isinstance(x, Sym)]))]
            seen.add(root)
            while stack:
                v, it = stack[-1]
                adv = False
                for c in it:
                    if c not in seen:
                        seen.add(c)
                        stack.append((c, iter([x for x in c.e[1:] if isinstance(x, Sym)])))
                        adv = True
                        break
                if not adv:
                    order.append(v)
                    stack.pop()
        for v in order:
            self.of(v)
        return [self.of(r) for r in roots]

    def of(self, v):
        q = self.q
        if is_int(v):
            return {(): v % q} if v % q else {}
        if not isinstance(v, Sym):
            return {(self.atom(('opaque', id(v))),): 1}
        r = self.memo.get(v)
        if r is not None:
            return r
        e = v.e
        op = e[0]
        r = None
        if self.rng is not None and e[0] not in ('in',):
            rg = self.rng(v)
            if rg is not None and rg[0] == rg[1]:
                # the value is a known constant on this piece
                r = {(): rg[0] % q} if rg[0] % q else {}
                self.memo[v] = r
                return r
        h = self.assume(e)
        if h is not None:
            r = h
        elif op in ('add', 'sub') and e[1] in (64, 128):
            r = None
            if op == 'add' and self.rng is not None:
                # the interval engine reads `x + C` with C >= 2^(bits-1) as the subtraction x - (2^bits - C) when that is
                # wrap-free; the polynomial must describe the same reading
                M = 1 << e[1]
                for x, y in ((e[2], e[3]), (e[3], e[2])):
                    if is_int(y) and y >= (M >> 1) and isinstance(x, Sym):
                        rx, rv = self.rng(x), self.rng(v)
                        k = M - y
                        if rx is not None and rv is not None and rv == (rx[0] - k, rx[1] - k):
                            r = self.add(self.of(x), {(): k % q}, -1)
                        break
            if r is None:
                r = self.add(self.of(e[2]), self.of(e[3]), 1 if op == 'add' else -1)
        elif op == 'mul' and e[1] in (64, 128):
            r = self.mul(self.of(e[2]), self.of(e[3]))
        elif op == 'shl' and is_int(e[3]):
            r = self.scale(self.of(e[2]), 1 << e[3])
        elif op == 'sel' and self.rng is not None:
            c = e[1]
            dec = None
            if isinstance(c, Sym) and c.e[0] == 'icmp' and c.e[1] in ('slt', 'sle', 'sgt', 'sge'):
                bits = c.e[2]
                H = 1 << (bits - 1)

                def sg(r_):
                    if r_ is None or r_[0] < 0:
                        return None
                    if r_[1] < H:
                        return r_
                    if r_[0] >= H:
                        return (r_[0] - 2 * H, r_[1] - 2 * H)
                    return None
                ra = sg(self.rng(c.e[3]) if isinstance(c.e[3], Sym) else ((c.e[3], c.e[3]) if is_int(c.e[3]) else None))
                rb = sg(self.rng(c.e[4]) if isinstance(c.e[4], Sym) else ((c.e[4], c.e[4]) if is_int(c.e[4]) else None))
                if ra and rb:
                    p = c.e[1]
                    if p == 'slt':
                        dec = True if ra[1] < rb[0] else (False if ra[0] >= rb[1] else None)
                    elif p == 'sle':
                        dec = True if ra[1] <= rb[0] else (False if ra[0] > rb[1] else None)
                    elif p == 'sgt':
                        dec = True if ra[0] > rb[1] else (False if ra[1] <= rb[0] else None)
                    else:
                        dec = True if ra[0] >= rb[1] else (False if ra[1] < rb[0] else None)
            if isinstance(c, Sym) and c.e[0] == 'icmp' and c.e[1] in ('eq', 'ne', 'ult', 'ule', 'ugt', 'uge'):
                ra = self.rng(c.e[3]) if isinstance(c.e[3], Sym) else ((c.e[3], c.e[3]) if is_int(c.e[3]) else None)
                rb = self.rng(c.e[4]) if isinstance(c.e[4], Sym) else ((c.e[4], c.e[4]) if is_int(c.e[4]) else None)
                if ra and rb and ra[0] >= 0 and rb[0] >= 0:
                    p = c.e[1]
                    if p in ('eq', 'ne'):
                        if ra[1] < rb[0] or rb[1] < ra[0]:
                            dec = (p == 'ne')
                        elif ra[0] == ra[1] == rb[0] == rb[1]:
                            dec = (p == 'eq')
                    elif p == 'ult':
                        dec = True if ra[1] < rb[0] else (False if ra[0] >= rb[1] else None)
                    elif p == 'ule':
                        dec = True if ra[1] <= rb[0] else (False if ra[0] > rb[1] else None)
                    elif p == 'ugt':
                        dec = True if ra[0] > rb[1] else (False if ra[1] <= rb[0] else None)
                    elif p == 'uge':
                        dec = True if ra[0] >= rb[1] else (False if ra[1] < rb[0] else None)
            if dec is not None:
                r = self.of(e[2] if dec else e[3])
            elif self.of(e[2]) == self.of(e[3]):
                r = self.of(e[2])       # both branches are congruent: the decision does not matter
        elif op == 'and' and e[1] == 64 and any(is_int(x) and x > 0 and (x & (x + 1)) != 0 and ((x >> ((x & -x).bit_length() - 1)) & ((x >> ((x & -x).bit_length() - 1)) + 1)) == 0 for x in e[2:4]):
            # mask of contiguous ones starting at bit a:  and(t, 2^a*(2^b-1)) = 2^a * ((t >> a) - 2^b * (t >> (a+b)))
            msk = e[2] if is_int(e[2]) else e[3]
            t = e[3] if is_int(e[2]) else e[2]
            a = (msk & -msk).bit_length() - 1
            b = (msk >> a).bit_length()
            hi = self.of(sym('lshr', 64, t, a + b)) if a + b < 64 else {}
            r = self.scale(self.add(self.of(sym('lshr', 64, t, a)), self.scale(hi, 1 << b), -1), 1 << a)
        elif op == 'and' and e[1] == 64:
            for t, msk in ((e[2], e[3]), (e[3], e[2])):
                if is_int(msk) and msk & (msk + 1) == 0 and msk > 0:
                    k = msk.bit_length()
                    hi = self.of(sym('lshr', 64, t, k))
                    r = self.add(self.of(t), self.scale(hi, 1 << k), -1)
                    break
        elif op == 'lshr' and e[1] == 64 and is_int(e[3]):
            t, j = e[2], e[3]
            te = t.e if isinstance(t, Sym) else None
            if te and te[0] == 'lshr' and te[1] == 64 and is_int(te[3]):
                # (s >> a) >> j = s >> (a + j)
                r = self.of(sym('lshr', 64, te[2], te[3] + j)) if te[3] + j < 64 else {}
            elif te and te[0] == 'and' and te[1] == 64 and any(is_int(m) and m > 0 and m & (m + 1) == 0 for m in te[2:4]):
                # floor((s mod 2^k) / 2^j) = floor(s / 2^j) - 2^(k-j) * floor(s / 2^k)      (j < k)
                msk = te[2] if is_int(te[2]) else te[3]
                s_ = te[3] if is_int(te[2]) else te[2]
                k = msk.bit_length()
                if j >= k:
                    r = {}
                else:
                    r = self.add(self.of(sym('lshr', 64, s_, j)), self.scale(self.of(sym('lshr', 64, s_, k)) if k < 64 else {}, 1 << (k - j)), -1)
            else:
                hb = self.bound(t) if self.bound is not None else None
                rg = self.rng(t) if self.rng is not None else None
                if rg is not None and rg[0] >= 0 and (rg[0] >> j) == (rg[1] >> j):
                    c = (rg[0] >> j) % self.q
                    r = {(): c} if c else {}     # the shifted value is a known constant on this range
                elif hb is not None and hb < (1 << j):
                    r = {}     # the value is known to be below 2^j: its high part is zero
                else:
                    r = {(self.atom(('lshr', t, j)),): 1}
        elif op == 'part' and e[1] == 32:
            j, t = e[2], e[3]
            if j == 1:
                r = self.of(sym('lshr', 64, t, 32))
            else:
                r = self.add(self.of(t), self.scale(self.of(sym('lshr', 64, t, 32)), 1 << 32), -1)
        elif op == 'slice' and isinstance(e[1], Sym):
            t, off, size = e[1], e[2], e[3]
            if size == 4 and off == 4:
                r = self.of(sym('lshr', 64, t, 32))
            elif size == 4 and off == 0:
                r = self.add(self.of(t), self.scale(self.of(sym('lshr', 64, t, 32)), 1 << 32), -1)
        elif op in ('zext',):
            r = self.of(e[3])
        elif op == 'trunc' and e[1] == 64 and e[2] == 32:
            t = e[3]
            r = self.add(self.of(t), self.scale(self.of(sym('lshr', 64, t, 32)), 1 << 32), -1)
        elif op == 'catl' and len(e) == 3:
            r = self.add(self.of(e[1]), self.scale(self.of(e[2]), 1 << 32))
        elif op == 'in':
            r = {(self.atom(e),): 1}
        elif op == 'urem' and is_int(e[3]) and e[3] > 0 and e[3] % q == 0:
            # t mod d = t - d*floor(t/d) and q | d: congruent to t (t read as the unsigned word)
            rt = self.rng(e[2]) if (self.rng is not None and isinstance(e[2], Sym)) else (0, 0)
            if rt is not None and rt[0] >= 0:
                r = self.of(e[2])
        elif op == 'srem' and is_int(e[3]) and e[3] > 0 and e[3] % q == 0 and self.rng is not None and isinstance(e[2], Sym):
            # signed remainder: congruent to the signed value of the word
            H = 1 << (e[1] - 1)
            rt = self.rng(e[2])
            if rt is not None and rt[1] < H:
                r = self.of(e[2])                      # non-negative word, or a reading that is already signed
            elif rt is not None and rt[0] >= H:
                r = self.add(self.of(e[2]), {(): (2 * H) % q}, -1)
        elif op == 'sext' and self.rng is not None and isinstance(e[3], Sym):
            H = 1 << (e[1] - 1)
            rt = self.rng(e[3])
            if rt is not None and rt[1] < H:
                r = self.of(e[3])
            elif rt is not None and rt[0] >= H:
                r = self.add(self.of(e[3]), {(): (2 * H) % q}, -1)
        elif op == 'xor' and e[1] == 64 and self.rng is not None and any(is_int(x) and x == 1 << 63 for x in e[2:4]):
            # flipping the top bit adds or subtracts 2^63 depending on the (known) sign case
            t = e[3] if is_int(e[2]) else e[2]
            rg = self.rng(t) if isinstance(t, Sym) else None
            if rg is not None and rg[0] >= 0 and rg[1] < (1 << 63):
                r = self.add(self.of(t), {(): (1 << 63) % q})
            elif rg is not None and rg[0] >= (1 << 63) and rg[1] < (1 << 64):
                r = self.add(self.of(t), {(): (1 << 63) % q}, -1)
        if r is None:
            r = {(self.atom(('node', v)),): 1}
        self.memo[v] = r
        return r

    def undecided(self, *polys):
        """True if a polynomial still contains an operation the rewriting does not understand (no verdict possible)"""
        inv = {a: k for k, a in self.atoms.items()}
        for p in polys:
            for m in p:
                for a in m:
                    if inv[a][0] in ('node', 'opaque', 'lshr'):
                        return True
        return False

    def show(self, p, n=6):
        inv = {a: k for k, a in self.atoms.items()}
        ts = []
        for m, c in list(p.items())[:n]:
            names = []
            for a in m:
                k = inv[a]
                if k[0] == 'in':
                    names.append('%s[%d:%d]' % (k[1], k[2], k[3]))
                elif k[0] == 'lshr':
                    names.append('(%s >> %d)' % (str(k[1])[:40], k[2]))
                else:
                    names.append(str(k)[:40])
            ts.append('%d*%s' % (c, '*'.join(names) if names else '1'))
        return ' + '.join(ts) + (' + ...' if len(p) > n else '')
