"""spqa.fixcheck — canaries for the region engine: fixture functions with seeded contract violations.
Each must be reported with the expected clause (and the negative control must stay clean), otherwise the calling
check is analysis-broken (exit 2)."""
from . import ctx
from .apicheck import check_run
from .kernels import KBox, S
from .vals import Unsupported, NeedEnum

N8 = lambda s: 8 * s['n']


def _entries():
    I = ('i', lambda s: s['n'])
    return {
        'fx_r_wrap': (dict(args=[I, ('b', 'res', 'out', N8)], dom=[S(n=0), S(n=4)]), 'loop-bound-wraps'),
        'fx_r_signed': (dict(args=[('i', lambda s: s['n']), ('i', lambda s: 0), ('b', 'res', 'inout', lambda s: 8),
                                   ('b', 'a', 'in', N8)], dom=[S(n=3)]), 'loop-bound-wraps'),
        'fx_r_overrun': (dict(args=[I, ('b', 'res', 'out', N8), ('b', 'a', 'in', N8)], dom=[S(n=4)]),
                         'write-outside-declared-extent'),
        'fx_r_ptr_ne': (dict(args=[I, ('b', 'res', 'out', N8)], dom=[S(n=8), S(n=6)]), 'loop-bound-wraps'),
        'fx_r_rbw': (dict(args=[I, ('b', 'res', 'out', N8), ('b', 'tmp', 'scratch', N8)], dom=[S(n=4)]), 'read-before-write'),
        'fx_r_partial': (dict(args=[I, ('b', 'res', 'out', N8)], dom=[S(n=4)]), 'output-not-fully-written'),
        'fx_r_overread': (dict(args=[I, ('b', 'res', 'out', N8), ('b', 'a', 'in', N8)], dom=[S(n=4)]),
                          'read-outside-declared-extent'),
        'fx_r_ok': (dict(args=[I, ('b', 'res', 'out', N8), ('b', 'a', 'in', N8), ('b', 'tmp', 'scratch', N8)],
                         dom=[S(n=0), S(n=4)]), None),
    }


def engine_canaries(R):
    FL, FG, FE = ctx.fixtures()
    box = KBox(FL)
    fired = []
    for name, (spec, expect) in _entries().items():
        found = set()
        for sh in spec['dom']:
            for exp in (False, True):
                try:
                    run = box.instantiate(name, spec, sh, 'accel', expand=exp)
                except (Unsupported, NeedEnum) as e:
                    R.broke('engine canary %s: %s' % (name, e))
                    continue
                for fd in check_run(run, ordered=exp):
                    found.add(fd['clause'])
        if expect is None:
            if found:
                R.broke('engine negative control %s reported %s' % (name, sorted(found)))
        elif expect not in found:
            R.broke('engine canary did not fire: %s expected %s, got %s' % (name, expect, sorted(found)))
        else:
            fired.append('%s -> %s' % (name, expect))
    R.extra.setdefault('canaries_fired', [])
    R.extra['canaries_fired'] += fired
    return fired


def interval_canary(R, max_ell):
    from .equiv import final_state
    from .intervals import Intervals
    from .values import fmt, sym, Sym
    FL, FG, FE = ctx.fixtures()
    box = KBox(FL)
    out = {}
    for name in ('fx_i_acc_overflow', 'fx_i_mask32', 'fx_i_ok'):
        spec = dict(args=[('i', lambda s: s['ell']), ('b', 'res', 'out', lambda s: 8), ('b', 'x', 'in', lambda s: 8 * s['ell'])],
                    dom=[S(ell=max_ell)])
        r = box.instantiate(name, spec, S(ell=max_ell), 'accel', expand='values')
        st = final_state(r, ('out',)).get('res', {})
        I = Intervals(lambda nm, off, size: (0, (1 << (8 * size)) - 1), fmt)
        vals = [v for _, (s, v) in st.items()]
        I.ev_all(vals)
        wide = [(p, iv) for p, iv in I.mask32_muls if iv[1] >= (1 << 32)]
        dropped = False
        if wide:
            from .props.C04 import reachable
            nodes = reachable(vals)
            dropped = any(sym('lshr', 64, p, 32) not in nodes for p, iv in wide)
        out[name] = (len(I.findings), dropped)
    if out['fx_i_acc_overflow'][0] == 0:
        R.broke('interval canary did not fire: fx_i_acc_overflow')
    if not out['fx_i_mask32'][1]:
        R.broke('interval canary did not fire: fx_i_mask32 (split multiplication)')
    if out['fx_i_ok'][0] or out['fx_i_ok'][1]:
        R.broke('interval negative control fired: fx_i_ok %r' % (out['fx_i_ok'],))
    R.extra.setdefault('canaries_fired', [])
    R.extra['canaries_fired'] += ['fx_i_acc_overflow -> add-wraps', 'fx_i_mask32 -> 32-bit operand too wide']
