"""spqa.fixcheck — canaries for the region engine: fixture functions with seeded contract violations.
Each must be reported with the expected clause (and the negative control must stay clean), otherwise the calling
check is analysis-broken (exit 2)."""
from . import ctx
from .apicheck import check_run
from .kernels import KBox, S
from .vals import Unsupported, NeedEnum

N8 = lambda s: 8 * s['n']


def _entries():
    I = ('i', lambda s: s['n'])
    return {
        'fx_r_wrap': (dict(args=[I, ('b', 'res', 'out', N8)], dom=[S(n=0), S(n=4)]), 'loop-bound-wraps'),
        'fx_r_signed': (dict(args=[('i', lambda s: s['n']), ('i', lambda s: 0), ('b', 'res', 'inout', lambda s: 8),
                                   ('b', 'a', 'in', N8)], dom=[S(n=3)]), 'loop-bound-wraps'),
        'fx_r_overrun': (dict(args=[I, ('b', 'res', 'out', N8), ('b', 'a', 'in', N8)], dom=[S(n=4)]),
                         'write-outside-declared-extent'),
        'fx_r_ptr_ne': (dict(args=[I, ('b', 'res', 'out', N8)], dom=[S(n=8), S(n=6)]), 'loop-bound-wraps'),
        'fx_r_rbw': (dict(args=[I, ('b', 'res', 'out', N8), ('b', 'tmp', 'scratch', N8)], dom=[S(n=4)]), 'read-before-write'),
        'fx_r_partial': (dict(args=[I, ('b', 'res', 'out', N8)], dom=[S(n=4)]), 'output-not-fully-written'),
        'fx_r_overread': (dict(args=[I, ('b', 'res', 'out', N8), ('b', 'a', 'in', N8)], dom=[S(n=4)]),
                          'read-outside-declared-extent'),
        'fx_r_ok': (dict(args=[I, ('b', 'res', 'out', N8), ('b', 'a', 'in', N8), ('b', 'tmp', 'scratch', N8)],
                         dom=[S(n=0), S(n=4)]), None),
    }


def engine_canaries(R):
    FL, FG, FE = ctx.fixtures()
    box = KBox(FL)
    fired = []
    for name, (spec, expect) in _entries().items():
        found = set()
        for sh in spec['dom']:
            for exp in (False, True):
                try:
                    run = box.instantiate(name, spec, sh, 'accel', expand=exp)
                except (Unsupported, NeedEnum) as e:
                    R.broke('engine canary %s: %s' % (name, e))
                    continue
                for fd in check_run(run, ordered=exp):
                    found.add(fd['clause'])
        if expect is None:
            if found:
                R.broke('engine negative control %s reported %s' % (name, sorted(found)))
        elif expect not in found:
            R.broke('engine canary did not fire: %s expected %s, got %s' % (name, expect, sorted(found)))
        else:
            fired.append('%s -> %s' % (name, expect))
    R.extra.setdefault('canaries_fired', [])
    R.extra['canaries_fired'] += fired
    return fired
