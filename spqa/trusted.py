"""spqa.trusted — hand-written summaries for functions whose IR is correct to instantiate but slow to do so.
Each entry is a *pure* function of concrete integer arguments and is validated against the IR of the current source
on sample arguments by `validate()` (called by the checks that rely on it): a summary that disagrees with the source is
analysis-broken (exit 2), never silently used.

  modq_pow(x, n, q): square-and-multiply modular exponentiation used ~4n times by the NTT table constructors; the
                     instantiated loop costs ~60 interpreted steps per call, the summary is pow(x, e, q)."""
from .vals import is_int, signed


def _modq_pow(machine, f, args, loc):
    x, n, q = args
    if not (is_int(x) and is_int(n) and is_int(q)) or q < 2:
        return machine.run_function(__import__('spqa.machine', fromlist=['Frame']).Frame(f, args, len(machine.stack)))
    x &= 0xffffffff
    q &= 0xffffffff
    ns = signed(n, 64)
    # C semantics: np = (n % (q-1) + q - 1) % (q-1) with truncating signed remainder
    m = q - 1
    r = abs(ns) % m
    if ns < 0:
        r = -r
    e = (r + m) % m
    return pow(x, e, q) & 0xffffffff if e else (1 % q)


TRUSTED = {'modq_pow': _modq_pow}


def validate(lib):
    """compare every summary with the instantiated IR on sample arguments; returns list of problems"""
    from .machine import Machine
    probs = []
    f = lib.fn('modq_pow')
    if f is None:
        return ['modq_pow vanished']
    samples = [(3, 5, 1073479681), (1070907127, 65536, 1073479681), (7, -3, 1072496641), (2, 0, 1071513601),
               (123456789, (1 << 40) + 17, 1073479681), (846468380, -65535, 1068236801)]
    for (x, n, q) in samples:
        m = Machine(lib, cpu='accel', trusted={})
        got = m.call(f, [x, n & ((1 << 64) - 1), q])
        want = _modq_pow(m, f, [x, n & ((1 << 64) - 1), q], None)
        if got != want:
            probs.append('summary of modq_pow disagrees with the source on %r: IR %r, summary %r' % ((x, n, q), got, want))
    return probs
