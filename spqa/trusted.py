"""spqa.trusted — hand-written summaries for functions outside the engine's catalogue (name -> callable).
Each entry needs a one-line reason; an unsummarisable function without an entry is exit 2.
Currently empty: the in-place rotation/automorphism cycle walks are data-independent and are instantiated on the
shape parameters (nn, p) like every other loop."""
TRUSTED = {}
