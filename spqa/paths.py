"""spqa.paths — enumeration of the paths of a call whose control flow depends on data values.

The value machine stops at a branch on a symbolic condition.  With `machine.decisions` set, such branches are decided by a
scheduled sequence of decisions (one per distinct condition, in order of first occurrence); this driver re-runs the call for
every sequence (depth-first, bounded) and returns the runs with their path conditions.  A path condition whose shape is
understood yields *facts*: `allzero(l_0, .., l_k)` true means every lane is zero, and a lane `or(a, b)` is zero iff both
operands are - down to input words, which can then be replaced by 0 in every expression of that path."""
from .values import Sym
from .vals import NeedDecision, is_int


def enumerate_paths(machine, fn, max_paths=64):
    """fn() performs the call on fresh buffers; returns [(result of fn, [(condition, decision, loc)])]"""
    out = []
    stack = [[]]
    while stack:
        dec = stack.pop()
        machine.decisions = list(dec)
        machine.decision_log = []
        machine.decision_memo = {}
        try:
            r = fn()
        except NeedDecision:
            stack.append(dec + [False])
            stack.append(dec + [True])
            if len(stack) + len(out) > max_paths:
                machine.decisions = None
                raise
            continue
        finally:
            log = list(machine.decision_log)
            machine.decisions = None
        out.append((r, log))
    return out


def zero_words(log):
    """input words (name, offset, size) known to be zero on the path, or None if a taken condition is not understood.
    Conditions that only exclude something (a lane is not all zero) give no fact (and need none)."""
    zeros = set()
    for c, d, loc in log:
        if not isinstance(c, Sym):
            return None
        truth = d
        e = c.e
        if e[0] == 'icmp' and e[1] in ('ne', 'eq') and ((is_int(e[4]) and e[4] == 0) or (is_int(e[3]) and e[3] == 0)):
            x = e[3] if is_int(e[4]) else e[4]
            if e[1] == 'eq':
                truth = not truth          # (x == 0) true  <=>  x is 0  <=>  allzero false
            # now: truth  <=>  x != 0  <=>  allzero(...) holds (x is the 0/1 flag)
        else:
            x = c
        if not (isinstance(x, Sym) and x.e[0] == 'allzero'):
            return None
        if not truth:
            continue
        todo = list(x.e[1:])
        while todo:
            l = todo.pop()
            if is_int(l):
                if l != 0:
                    return None        # infeasible path
                continue
            if not isinstance(l, Sym):
                return None
            if l.e[0] == 'or':
                todo += [l.e[2], l.e[3]]
            elif l.e[0] == 'in':
                zeros.add((l.e[1], l.e[2], l.e[3]))
            elif l.e[0] in ('cat', 'catl', 'catv'):
                todo += list(l.e[1:])
            else:
                return None
    return zeros


def describe(log):
    return '; '.join('%s at %s' % ('taken' if d else 'not taken', str(loc).split('/')[-1]) for c, d, loc in log)
