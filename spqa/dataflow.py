"""spqa.dataflow — small SSA data-flow helpers: argument dependence (backward slices) and the set of
constructor arguments a constructed table depends on."""
from .effects import NORETURN_EXT, PURE_EXT


class Deps:
    """deps(value) = set of argument indices (and 'mem' when the value depends on loaded memory) it is computed from"""

    _retmemo = {}
    _inprogress = set()

    def __init__(self, f, lib=None, eff=None):
        self.f = f
        self.memo = {}
        self.lib = lib
        self.eff = eff

    def retdeps(self, t, stack=()):
        """argument indices of function t its return value depends on (data flow, non-error paths)"""
        if t.key in Deps._retmemo:
            return Deps._retmemo[t.key]
        if t.key in Deps._inprogress:
            return set(range(len(t.args))) | {'mem'}
        Deps._inprogress.add(t.key)
        err = self.eff._error_blocks(t)
        D = Deps(t, self.lib, self.eff)
        out = set()
        for b in t.blocks:
            if b.id in err or not b.reachable:
                continue
            i = b.term
            if i.op == 'ret' and i.ops:
                v = i.ops[0]
                # a phi merging error-path values: only the incoming edges from non-error blocks count
                if v.get('k') == 'i' and t.instrs[v['v']].op == 'phi' and t.instrs[v['v']].block.id == b.id:
                    for val, pb in t.instrs[v['v']]['incoming']:
                        if pb not in err:
                            out |= {x for x in D.of(val)}
                else:
                    out |= set(D.of(v))
        Deps._inprogress.discard(t.key)
        Deps._retmemo[t.key] = out
        return out

    def of(self, ref):
        k = ref.get('k')
        if k == 'a':
            return frozenset([ref['v']])
        if k == 'i':
            return self._instr(ref['v'])
        if k == 'ce':
            out = frozenset()
            for o in ref['ops']:
                out |= self.of(o)
            return out
        return frozenset()

    def _instr(self, iid):
        if iid in self.memo:
            return self.memo[iid]
        self.memo[iid] = frozenset()  # cycle breaker (phi)
        i = self.f.instrs[iid]
        out = set()
        if i.op == 'phi':
            for v, _ in i['incoming']:
                out |= self.of(v)
        elif i.op == 'getelementptr':
            g = i['gep']
            out |= self.of(g['base'])
            for r, _ in g['terms']:
                out |= self.of(r)
        elif i.op == 'load':
            out |= self.of(i.ops[0])
            out.add('mem')
        elif i.op == 'call':
            c = i.get('callee')
            t = self.lib.resolve(self.f.unit, c) if (self.lib is not None and c) else None
            if t is not None and self.eff is not None:
                rd = self.retdeps(t)
                for k in rd:
                    if k == 'mem':
                        out.add('mem')
                    elif k < len(i.ops):
                        out |= self.of(i.ops[k])
            else:
                for o in i.ops:
                    out |= self.of(o)
                if not (c in PURE_EXT):
                    out.add('mem')
        else:
            for o in i.ops:
                out |= self.of(o)
        res = frozenset(out)
        self.memo[iid] = res
        # second pass for phi cycles: recompute once with memo populated
        if i.op == 'phi':
            out = set()
            for v, _ in i['incoming']:
                out |= self.of(v)
            res = frozenset(out)
            self.memo[iid] = res
        return res


def relevant_args(lib, cg, eff, f, memo=None, stack=None):
    """arguments of constructor-like function f on which its observable product depends: they reach a stored value or
    address, the return value, an allocation size, or a branch both of whose sides continue normally
    (validation-only parameters, which only select an error path, are not dependencies)"""
    if memo is None:
        memo = {}
    if stack is None:
        stack = set()
    if f.key in memo:
        return memo[f.key]
    if f.key in stack:
        return set(range(len(f.args)))
    stack.add(f.key)
    err = eff._error_blocks(f)
    D = Deps(f, lib, eff)
    rel = set()
    for b in f.blocks:
        if b.id in err or not b.reachable:
            continue
        for i in b.instrs:
            if i.op == 'store':
                rel |= {x for x in D.of(i.ops[0]) if x != 'mem'}
                rel |= {x for x in D.of(i.ops[1]) if x != 'mem'}
            elif i.op == 'ret' and i.ops:
                rel |= {x for x in D.of(i.ops[0]) if x != 'mem'}
            elif i.op == 'br' and len(i.ops) == 1:
                live = [s for s in (i['then'], i['else']) if s not in err]
                if len(live) >= 2:
                    rel |= {x for x in D.of(i.ops[0]) if x != 'mem'}
            elif i.op == 'switch':
                live = {s for s in [i['default']] + [c[1] for c in i['cases']] if s not in err}
                if len(live) >= 2:
                    rel |= {x for x in D.of(i.ops[0]) if x != 'mem'}
            elif i.op == 'call':
                c = i.get('callee')
                if i.get('intrinsic') and (c in PURE_EXT):
                    continue
                if c in NORETURN_EXT:
                    continue
                targets = []
                for (ci, ts, ext, key) in cg.calls.get(f.key, []):
                    if ci.id == i.id:
                        targets = ts
                        extn = ext
                        break
                else:
                    extn = []
                if targets:
                    for t in targets:
                        r = relevant_args(lib, cg, eff, t, memo, stack)
                        for k in r:
                            if k < len(i.ops):
                                rel |= {x for x in D.of(i.ops[k]) if x != 'mem'}
                else:
                    if c in PURE_EXT:
                        continue
                    for o in i.ops:
                        rel |= {x for x in D.of(o) if x != 'mem'}
    stack.discard(f.key)
    memo[f.key] = rel
    return rel
