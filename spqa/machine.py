"""spqa.machine — E3 region engine: instantiation of the functions' summaries on a concrete shape.

Values are exact for shape parameters (sizes, strides, dimensions, table fields) and abstract for data.
Loops of the catalogue (affine induction variables, invariant exit bound) are *not* iterated: the trip count
comes from loops.first_fail in closed form (wrap-around included) and the body is summarised once with the
loop counter symbolic, every access becoming a strided family.  Loops outside the catalogue (geometric
induction variables of the FFT drivers, counter-dependent guards, cursors kept in memory) are instantiated
iteration by iteration on the shape parameters only — no element of a data buffer is ever computed.
The result is the ordered list of memory events of one call."""
import math

from . import loops as LP
from .loops import INF, loop_info, first_fail, icmp_eval, NEG, SWAP
from .vals import (AlignDep, PtrAfter, PtrDiff, PtrBits, Aff, Aborted, FnPtr, NeedEnum, Obj, Opaque, OPAQUE, UNINIT, Ptr, Unsupported, aff_add, aff_mul, aff_parts,
                   is_int, mask, mk_aff, signed)


class Runaway(Exception):
    def __init__(self, loc, trip, fn):
        Exception.__init__(self, 'loop at %s in %s runs %s iterations' % (loc, fn, trip))
        self.loc = loc
        self.trip = trip
        self.fn = fn


class NonAff:
    """integer that is a non-affine function of loop counter `key` (fine unless an address or guard needs it)"""
    __slots__ = ('key',)

    def __init__(self, key):
        self.key = key

    def __repr__(self):
        return '<nonaff K%s>' % (self.key,)


class Event:
    __slots__ = ('kind', 'obj', 'off', 'size', 'reps', 'loc', 'stack', 'via', 'align', 'may', 'seq', 'note', 'val', 'slack')

    def __init__(self, kind, obj, off, size, reps, loc, stack, via=None, align=0, may=False, note=None, val=None):
        self.kind = kind    # R W F(free) A(alloc) X(problem)
        self.obj = obj
        self.off = off
        self.size = size
        self.reps = reps    # tuple of (key, count)
        self.loc = loc
        self.stack = stack
        self.via = via
        self.align = align
        self.may = may
        self.note = note
        self.val = val      # 'zero' for stores of a constant 0 / memset 0, else None
        self.slack = 0

    def __repr__(self):
        return '<%s %s+%s [%s] x%s @%s>' % (self.kind, self.obj.name if self.obj else None, self.off, self.size,
                                            [c for _, c in self.reps], self.loc)


ASM_MODELS = {
    # name: [(arg index, kind, byte offset, byte size)]  -- filled/validated by spqa.asm
}

MATH1 = {'cos': math.cos, 'sin': math.sin, 'log2': math.log2, 'exp2': lambda x: 2.0 ** x, 'ceil': math.ceil,
         'floor': math.floor, 'fabs': abs, 'sqrt': math.sqrt, 'rint': lambda x: float(round(x)), 'exp': math.exp,
         'log': math.log, 'round': lambda x: float(round(x))}


class Frame:
    __slots__ = ('f', 'args', 'env', 'allocas', 'phi', 'taken', 'depth')

    def __init__(self, f, args, depth):
        self.f = f
        self.args = args
        self.env = {}
        self.allocas = []
        self.phi = {}
        self.taken = {}   # block id -> pred block id through which it was (last) entered
        self.depth = depth


class Machine:
    def __init__(self, lib, cpu='accel', expand=False, loop_cap=1 << 22, event_cap=4_000_000, trusted=None):
        self.lib = lib
        self.cpu = cpu
        self.expand = expand
        self.loop_cap = loop_cap
        self.event_cap = event_cap
        self.events = []
        self.reps = []           # active symbolic loops: [key, count]
        self.repcount = {}
        self.stack = []          # function names
        self.nkey = 0
        self.globals = {}
        self.trusted = trusted or {}
        self.record = True
        self.io = False
        self.nonuniform = set()  # (fn key, loop id) that had to be enumerated
        self.regions_cache = {}
        self.calls_seen = []
        self.cpu_obj = Obj('cpu', '__cpu_model', 16)
        self.trace_names = set()
        self.trace = []
        self.trace_cb = None
        self.assumed = set()     # data-dependent sanity checks of table contents assumed to pass (abort() on the other side)
        if not ASM_MODELS and lib.meta.get('asm'):
            from .asm import load_models
            try:
                mods, _ = load_models(lib)
                ASM_MODELS.update(mods)
            except Exception:
                raise

    # ------------------------------------------------------------------------------------------ events
    def emit(self, kind, ptr, size, loc, align=0, may=False, note=None, val=None):
        if not self.record:
            return
        if isinstance(ptr, Ptr):
            obj, off, via = ptr.obj, ptr.off, getattr(ptr, 'via', None)
        else:
            obj, off, via = None, ptr, None
        if obj is not None and obj.kind == 'alloca':
            return
        if len(self.events) >= self.event_cap:
            raise Unsupported('event cap exceeded')
        ev = Event(kind, obj, off, size, tuple((k, c) for k, c in self.reps), loc, tuple(self.stack), via, align, may, note, val)
        if isinstance(ptr, Ptr) and ptr.slack:
            ev.slack = ptr.slack
        self.events.append(ev)

    # ------------------------------------------------------------------------------------------ objects
    def global_obj(self, unit, name):
        g = self.lib.resolve_global(unit, name)
        if g is None:
            if name == '__cpu_model':
                return self.cpu_obj
            k = (None, name)
            if k not in self.globals:
                self.globals[k] = Obj('global', name, None)
            return self.globals[k]
        k = (g['unit'] if g['internal'] else None, g['name'])
        if k not in self.globals:
            o = Obj('global', g['name'], g['ty'].get('bytes'))
            o.init = g.get('init')
            o.const = g['const']
            o.gdesc = g
            self.globals[k] = o
        return self.globals[k]

    WINDOW = 512

    def new_obj(self, kind, name, size, tracked):
        o = Obj(kind, name, size, fields=True)
        # small objects are tracked entirely; big (or unknown-size) heap blocks only in a header window, where a struct
        # header and its payload share one allocation: the payload is data
        o.window = None if tracked else self.WINDOW
        o.birth = len(self.reps)
        return o

    def _in_window(self, obj, off, size):
        w = getattr(obj, 'window', None)
        if w is None:
            return True
        return is_int(off) and off + size <= w

    # ------------------------------------------------------------------------------------------ memory
    def _tracked_store_guard(self, obj):
        b = getattr(obj, 'birth', 0)
        if len(self.reps) > b:
            raise NeedEnum(self.reps[b][0], 'tracked store into %s inside an accelerated loop' % obj.name)

    def load(self, ptr, ty, loc, align=0):
        size = ty.get('bytes', 8)
        if not isinstance(ptr, Ptr):
            if isinstance(ptr, NonAff):
                raise NeedEnum(ptr.key, 'address')
            self.emit('X', None, size, loc, note='load through non-pointer value %r' % (ptr,))
            return OPAQUE
        self.emit('R', ptr, size, loc, align)
        obj = ptr.obj
        if obj.kind == 'cpu':
            return mask(ty.get('bits', 32)) if self.cpu == 'accel' else 0
        if obj.fields is None:
            return OPAQUE
        off = ptr.off
        if not self._in_window(obj, off, size):
            return OPAQUE
        if isinstance(off, Aff):
            if obj.fields or getattr(obj, 'init', None):
                raise NeedEnum(next(iter(off.co)), 'load from tracked object at counter-dependent offset')
            return 0 if obj.zeroed else OPAQUE
        if not is_int(off):
            return OPAQUE
        fld = obj.fields.get(off)
        if fld is not None and fld[0] == size:
            v = fld[1]
            if isinstance(v, float) and ty.get('k') == 'int' and size == 8:
                import struct
                return struct.unpack('<Q', struct.pack('<d', v))[0]
            if is_int(v) and ty.get('k') == 'fp' and size == 8:
                import struct
                return struct.unpack('<d', struct.pack('<Q', v & mask(64)))[0]
            return v
        # overlapping partial field?
        for o2, (sz2, v2) in obj.fields.items():
            if o2 < off + size and off < o2 + sz2:
                # sub-field of a zero / opaque blob
                if is_int(v2) and v2 == 0:
                    return 0
                return OPAQUE
        if obj.smashed:
            return OPAQUE
        if obj.zeroed:
            return 0.0 if ty.get('k') == 'fp' else 0
        if obj.kind == 'global':
            return self._load_init(obj, off, ty)
        if obj.kind in ('heap', 'alloca'):
            return UNINIT
        return OPAQUE

    def _load_init(self, obj, off, ty):
        init = getattr(obj, 'init', None)
        if init is None:
            return OPAQUE
        if init.get('k') == 'z':
            return 0.0 if ty.get('k') == 'fp' else 0
        v = self._init_at(init, off, ty)
        return v

    def _init_at(self, init, off, ty):
        k = init.get('k')
        if k == 'c' and off == 0:
            return int(init['v'])
        if k == 'f' and off == 0:
            return float(init['v']) if init['v'] is not None else OPAQUE
        if k == 'n' and off == 0:
            return 0
        if k == 'z':
            return 0.0 if ty.get('k') == 'fp' else 0
        if k == 'cv':
            t = init['ty']
            if t['k'] in ('array', 'vec'):
                n = len(init['elems'])
                if n == 0:
                    return OPAQUE
                esz = t['bytes'] // n if t.get('bytes') else None
                if not esz:
                    return OPAQUE
                idx = off // esz
                if idx < n:
                    return self._init_at(init['elems'][idx], off - idx * esz, ty)
                return OPAQUE
            if t['k'] == 'struct':
                name = t['s'].lstrip('%').split(' = ')[0]
                sd = self.lib.structs.get(name)
                if sd:
                    for fd, e in zip(sd['fields'], init['elems']):
                        if fd['off'] <= off < fd['off'] + max(1, fd['ty'].get('bytes', 1)):
                            return self._init_at(e, off - fd['off'], ty)
                return OPAQUE
        if k == 'g' and off == 0:
            if init.get('fn'):
                return FnPtr(init['v'])
            return Ptr(self.global_obj(None, init['v']), 0)
        return OPAQUE

    def _init_elems(self, init, base):
        """flatten a constant initialiser into (offset, size, value) scalars"""
        k = init.get('k')
        if k == 'c':
            return [(base, init['bits'] // 8, int(init['v']))]
        if k == 'f':
            return [(base, init['bits'] // 8, float(init['v']) if init['v'] is not None else OPAQUE)]
        if k == 'n':
            return [(base, 8, 0)]
        if k == 'g' and (init.get('fn') or init.get('alias')):
            # a function address in a constant table (e.g. a template of the module's function table)
            return [(base, 8, FnPtr(init['v'] if init.get('fn') else self.lib.aliases.get(init['v'], init['v'])))]
        if k == 'ce' and init.get('op') in ('bitcast', 'addrspacecast') and init.get('ops'):
            return self._init_elems(init['ops'][0], base)
        if k == 'cv':
            t = init['ty']
            out = []
            if t['k'] in ('array', 'vec') and init['elems']:
                esz = t['bytes'] // len(init['elems'])
                for j, e in enumerate(init['elems']):
                    out += self._init_elems(e, base + j * esz)
            elif t['k'] == 'struct':
                name = t['s'].lstrip('%').split(' = ')[0]
                sd = self.lib.structs.get(name)
                if sd:
                    for fd, e in zip(sd['fields'], init['elems']):
                        out += self._init_elems(e, base + fd['off'])
            return out
        return []

    def store(self, ptr, val, ty, loc, align=0):
        size = ty.get('bytes', 8)
        if not isinstance(ptr, Ptr):
            if isinstance(ptr, NonAff):
                raise NeedEnum(ptr.key, 'address')
            self.emit('X', None, size, loc, note='store through non-pointer value %r' % (ptr,))
            return
        zero = (is_int(val) and val == 0) or (isinstance(val, float) and val == 0.0 and math.copysign(1, val) > 0)
        self.emit('W', ptr, size, loc, align, val='zero' if zero else None)
        obj = ptr.obj
        if obj.fields is None:
            return
        off = ptr.off
        if not self._in_window(obj, off, size):
            return
        data = isinstance(val, Opaque) or isinstance(val, NonAff)
        if not data:
            self._tracked_store_guard(obj)
        if isinstance(off, Aff):
            if not data:
                raise NeedEnum(next(iter(off.co)), 'tracked store at counter-dependent offset')
            obj.smashed = True
            return
        if not is_int(off):
            obj.smashed = True
            return
        # drop overlapping fields
        for o2 in [o2 for o2, (sz2, _) in obj.fields.items() if o2 < off + size and off < o2 + sz2]:
            del obj.fields[o2]
        obj.fields[off] = (size, OPAQUE if isinstance(val, NonAff) else val)

    def memset(self, ptr, byte, n, loc):
        if not isinstance(ptr, Ptr):
            self.emit('X', None, 0, loc, note='memset through non-pointer')
            return
        if isinstance(n, NonAff):
            raise NeedEnum(n.key, 'memset size')
        if isinstance(n, Aff):
            raise NeedEnum(next(iter(n.co)), 'memset size')
        if not is_int(n):
            self.emit('X', ptr, 0, loc, note='memset with data-dependent size')
            return
        if n > (1 << 40):
            self.emit('X', ptr, n, loc, note='memset of %d bytes (size computation wrapped)' % n)
            raise Runaway(loc, n, self.stack[-1] if self.stack else '?')
        if n:
            self.emit('W', ptr, n, loc, val='zero' if (is_int(byte) and byte == 0) else None)
        obj = ptr.obj
        if obj.fields is not None and n and getattr(obj, 'window', None) is not None and not (is_int(ptr.off) and ptr.off < obj.window):
            return
        if obj.fields is not None and n:
            self._tracked_store_guard(obj)
            if is_int(ptr.off):
                for o2 in [o2 for o2, (sz2, _) in obj.fields.items() if o2 < ptr.off + n and ptr.off < o2 + sz2]:
                    del obj.fields[o2]
                if is_int(byte) and byte == 0 and ptr.off == 0 and (obj.size is None or n >= obj.size):
                    obj.zeroed = True
                    obj.smashed = False
                elif is_int(byte) and byte == 0 and n <= 4096:
                    for o in range(0, n, 8):
                        obj.fields[ptr.off + o] = (min(8, n - o), 0)
                else:
                    obj.smashed = True
            else:
                obj.smashed = True

    def memcpy(self, dst, src, n, loc):
        if isinstance(n, (NonAff, Aff)):
            raise NeedEnum(n.key if isinstance(n, NonAff) else next(iter(n.co)), 'memcpy size')
        if not is_int(n):
            self.emit('X', dst if isinstance(dst, Ptr) else None, 0, loc, note='memcpy with data-dependent size')
            return
        if n > (1 << 40):
            raise Runaway(loc, n, self.stack[-1] if self.stack else '?')
        if n == 0:
            return
        if isinstance(src, Ptr):
            self.emit('R', src, n, loc, note='memcpy')
        else:
            self.emit('X', None, n, loc, note='memcpy from non-pointer')
        if isinstance(dst, Ptr):
            self.emit('W', dst, n, loc, note='memcpy')
            do = dst.obj
            if do.fields is not None and getattr(do, 'window', None) is not None and not (is_int(dst.off) and dst.off < do.window):
                pass
            elif do.fields is not None:
                self._tracked_store_guard(do)
                if is_int(dst.off) and isinstance(src, Ptr) and src.obj.fields is not None and is_int(src.off):
                    for o2 in [o2 for o2, (sz2, _) in do.fields.items() if o2 < dst.off + n and dst.off < o2 + sz2]:
                        del do.fields[o2]
                    for o2, (sz2, v2) in list(src.obj.fields.items()):
                        if src.off <= o2 and o2 + sz2 <= src.off + n:
                            do.fields[dst.off + o2 - src.off] = (sz2, v2)
                    # constant initialiser of a global (e.g. a local array initialised from a literal)
                    init = getattr(src.obj, 'init', None)
                    if init is not None and not src.obj.fields and n <= 4096:
                        for (o2, sz2, v2) in self._init_elems(init, 0):
                            if src.off <= o2 and o2 + sz2 <= src.off + n:
                                do.fields[dst.off + o2 - src.off] = (sz2, v2)
                else:
                    do.smashed = True
        else:
            self.emit('X', None, n, loc, note='memcpy to non-pointer')

    # ------------------------------------------------------------------------------------------ calls
    def call(self, f, args, loc=None):
        if len(self.stack) > 200:
            raise Unsupported('call depth exceeded in ' + f.name)
        traced = self.trace_names and f.name in self.trace_names
        if traced:
            self.trace.append((f.name, tuple(args), tuple(self.stack)))
            if self.trace_cb is not None:
                self.trace_cb(self, 'enter', f.name, args)
        t = self.trusted.get(f.name)
        if t is not None:
            return t(self, f, args, loc)
        fr = Frame(f, args, len(self.stack))
        self.stack.append(f.name)
        try:
            r = self.run_function(fr)
        finally:
            self.stack.pop()
        if traced and self.trace_cb is not None:
            self.trace_cb(self, 'exit', f.name, args)
        return r

    def call_external(self, name, args, i, fr):
        loc = i.loc
        if name.startswith('llvm.memset') or name == 'memset':
            self.memset(args[0], args[1], args[2], loc)
            return args[0]
        if name.startswith('llvm.memcpy') or name.startswith('llvm.memmove') or name in ('memcpy', 'memmove'):
            self.memcpy(args[0], args[1], args[2], loc)
            return args[0]
        if name in ('malloc', 'aligned_alloc', 'calloc'):
            szv = args[-1] if name != 'calloc' else None
            if name == 'calloc' and is_int(args[0]) and is_int(args[1]):
                szv = args[0] * args[1]
            if isinstance(szv, (Aff, NonAff)):
                raise NeedEnum(szv.key if isinstance(szv, NonAff) else next(iter(szv.co)), 'allocation size')
            size = szv if is_int(szv) else None
            o = self.new_obj('heap', '%s@%s' % (name, loc), size, tracked=(size is not None and size <= 4096))
            o.site = loc
            o.allocator = name
            o.align = args[0] if (name == 'aligned_alloc' and is_int(args[0])) else 16
            if name == 'calloc':
                o.zeroed = True
            self.emit('A', Ptr(o, 0), size or 0, loc)
            return Ptr(o, 0)
        if name == 'free':
            p = args[0]
            if isinstance(p, Ptr):
                self.emit('F', p, 0, loc)
                p.obj.freed = True
            elif not (is_int(p) and p == 0):
                self.emit('X', None, 0, loc, note='free of non-pointer %r' % (p,))
            return None
        if name in ('abort', 'exit', '_exit', '__assert_fail'):
            raise Aborted(loc)
        if name in MATH1:
            a = args[0]
            if isinstance(a, float) or is_int(a):
                try:
                    return float(MATH1[name](float(a)))
                except (ValueError, OverflowError):
                    return OPAQUE
            return OPAQUE
        if name in ('cosf', 'sinf', 'sqrtf', 'fabsf', 'log2f', 'exp2f', 'ceilf', 'floorf', 'rintf'):
            a = args[0]
            if isinstance(a, float) or is_int(a):
                import struct
                try:
                    v = float(MATH1[name[:-1]](float(a)))
                    return struct.unpack('<f', struct.pack('<f', v))[0]
                except (ValueError, OverflowError, struct.error):
                    return OPAQUE
            return OPAQUE
        if name in ('nextafter', 'nextafterf', 'ldexp', 'ldexpf', 'scalbn', 'scalbnf', 'fmin', 'fmax', 'copysign', 'fmod', 'trunc', 'truncf',
                    'nearbyint', 'fma', 'fmaf', 'hypot', 'atan2', 'tan', 'atan', 'acos', 'asin', 'sincos'):
            if name == 'sincos':
                raise Unsupported('external function without a model: %s (called at %s)' % (name, loc))
            if all(isinstance(a, float) or is_int(a) for a in args):
                import struct
                f32 = lambda v: struct.unpack('<f', struct.pack('<f', v))[0]      # noqa
                try:
                    a = [float(x) if not (name in ('ldexp', 'ldexpf', 'scalbn', 'scalbnf') and j == 1) else int(x) for j, x in enumerate(args)]
                    if name == 'nextafter':
                        return math.nextafter(a[0], a[1])
                    if name == 'nextafterf':
                        import numpy as np
                        return float(np.nextafter(np.float32(a[0]), np.float32(a[1])))
                    if name in ('ldexp', 'scalbn'):
                        return math.ldexp(a[0], a[1] - (1 << 32) if a[1] >= (1 << 31) else a[1])
                    if name in ('ldexpf', 'scalbnf'):
                        return f32(math.ldexp(a[0], a[1] - (1 << 32) if a[1] >= (1 << 31) else a[1]))
                    if name == 'fmin':
                        return min(a)
                    if name == 'fmax':
                        return max(a)
                    if name == 'copysign':
                        return math.copysign(a[0], a[1])
                    if name == 'fmod':
                        return math.fmod(a[0], a[1])
                    if name in ('trunc', 'truncf'):
                        return float(math.trunc(a[0]))
                    if name == 'nearbyint':
                        return float(round(a[0]))
                    if name == 'fma':
                        from fractions import Fraction
                        return float(Fraction(a[0]) * Fraction(a[1]) + Fraction(a[2]))
                    if name == 'fmaf':
                        from fractions import Fraction
                        return f32(float(Fraction(a[0]) * Fraction(a[1]) + Fraction(a[2])))
                    if name == 'hypot':
                        return math.hypot(a[0], a[1])
                    if name == 'atan2':
                        return math.atan2(a[0], a[1])
                    return float(getattr(math, name)(a[0]))
                except (ValueError, OverflowError, struct.error):
                    return OPAQUE
            return OPAQUE
        if name == 'pow':
            if all(isinstance(a, float) for a in args):
                try:
                    return float(args[0] ** args[1])
                except (ValueError, OverflowError):
                    return OPAQUE
            return OPAQUE
        if name.startswith('llvm.'):
            return self.intrinsic(name, args, i)
        if name in ('fwrite', 'fputs', 'fprintf', 'printf', 'putchar', 'puts', 'fputc', 'fflush', 'perror'):
            self.io = True
            return 0
        if name in ('strerror', '__errno_location'):
            return Ptr(self.new_obj('heap', name, None, False), 0)
        if name in ('bcmp', 'memcmp'):
            if is_int(args[2]) and args[2]:
                for a in args[:2]:
                    if isinstance(a, Ptr):
                        self.emit('R', a, args[2], loc)
            return OPAQUE
        if name in ASM_MODELS:
            for (ai, kind, off, size) in ASM_MODELS[name]:
                p = args[ai]
                if isinstance(p, Ptr):
                    self.emit(kind, Ptr(p.obj, self._add(p.off, off), p.via), size, loc, note='asm ' + name)
                else:
                    self.emit('X', None, size, loc, note='asm kernel on non-pointer')
            return None
        raise Unsupported('external function without a model: %s (called at %s)' % (name, loc))

    def intrinsic(self, name, args, i):
        if name.startswith('llvm.prefetch'):
            return None        # a hint: no architectural read or write
        base = name
        if base.startswith('llvm.ctpop'):
            a = args[0]
            if is_int(a):
                return bin(a).count('1')
            if isinstance(a, (Aff, NonAff)):
                return NonAff(a.key if isinstance(a, NonAff) else next(iter(a.co)))
            return OPAQUE
        if base.startswith('llvm.assume') or base.startswith('llvm.dbg') or base.startswith('llvm.lifetime') or \
                base == 'llvm.x86.avx.vzeroupper' or base.startswith('llvm.experimental.noalias'):
            return None
        for m in ('rint', 'ceil', 'floor', 'fabs', 'sqrt'):
            if base == 'llvm.%s.f64' % m:
                a = args[0]
                if isinstance(a, float):
                    return float(MATH1[m](a))
                return OPAQUE
        if base.startswith('llvm.fma') or base.startswith('llvm.fmuladd'):
            if all(isinstance(a, float) for a in args):
                return args[0] * args[1] + args[2]
            return OPAQUE
        if base.startswith('llvm.x86.') or base.startswith('llvm.masked'):
            if base.startswith('llvm.masked') or 'maskload' in base or 'maskstore' in base or 'gather' in base:
                raise Unsupported('memory intrinsic without a model: ' + base)
            return OPAQUE
        if base.startswith('llvm.umin') or base.startswith('llvm.umax') or base.startswith('llvm.smin') or base.startswith(
                'llvm.smax'):
            a, b = args
            if is_int(a) and is_int(b):
                bits = i.ty['bits']
                if 'umin' in base:
                    return min(a, b)
                if 'umax' in base:
                    return max(a, b)
                sa, sb = signed(a, bits), signed(b, bits)
                r = min(sa, sb) if 'smin' in base else max(sa, sb)
                return r & mask(bits)
            return self._nonaff_of(a, b)
        raise Unsupported('intrinsic without a model: ' + base)

    def _nonaff_of(self, *vals):
        for v in vals:
            if isinstance(v, NonAff):
                return v
            if isinstance(v, Aff):
                return NonAff(next(iter(v.co)))
            if isinstance(v, Ptr) and isinstance(v.off, Aff):
                return NonAff(next(iter(v.off.co)))
        return OPAQUE

    # ------------------------------------------------------------------------------------------ arithmetic
    def _add(self, a, b, bits=64):
        r = aff_add(a, b, bits)
        if r is None:
            return self._nonaff_of(a, b)
        return r

    def aff_range(self, v):
        """(lo, hi) of an Aff over the active accelerated loops, as exact integers (no modular reduction); None if unknown"""
        if is_int(v):
            return v, v
        lo = hi = v.c0
        for k, c in v.co.items():
            n = self.repcount.get(k)
            if n is None:
                return None
            cs = signed(c, v.bits)
            ext = cs * (n - 1) if n > 0 else 0
            if ext >= 0:
                hi += ext
            else:
                lo += ext
        return lo, hi

    def binop(self, op, a, b, bits, i):
        m = mask(bits)
        if is_int(a) and is_int(b):
            a &= m
            b &= m
            if op == 'add':
                return (a + b) & m
            if op == 'sub':
                return (a - b) & m
            if op == 'mul':
                return (a * b) & m
            if op == 'and':
                return a & b
            if op == 'or':
                return a | b
            if op == 'xor':
                return a ^ b
            if op == 'shl':
                return (a << b) & m if b < bits else 0
            if op == 'lshr':
                return a >> b if b < bits else 0
            if op == 'ashr':
                return (signed(a, bits) >> min(b, bits - 1)) & m
            if op == 'udiv':
                if b == 0:
                    return OPAQUE
                return a // b
            if op == 'urem':
                if b == 0:
                    return OPAQUE
                return a % b
            if op == 'sdiv':
                if b == 0:
                    return OPAQUE
                sa, sb = signed(a, bits), signed(b, bits)
                q = abs(sa) // abs(sb)
                if (sa < 0) != (sb < 0):
                    q = -q
                return q & m
            if op == 'srem':
                if b == 0:
                    return OPAQUE
                sa, sb = signed(a, bits), signed(b, bits)
                r = abs(sa) % abs(sb)
                if sa < 0:
                    r = -r
                return r & m
            raise Unsupported('binop ' + op)
        # pointer arithmetic through integers
        if isinstance(a, Ptr) or isinstance(b, Ptr):
            if op == 'add':
                p, o = (a, b) if isinstance(a, Ptr) else (b, a)
                if isinstance(o, Ptr):
                    return OPAQUE
                off = self._add(p.off, o)
                if isinstance(off, (NonAff, Opaque)):
                    return off if isinstance(off, NonAff) else self._unknown_ptr(p)
                return self._ptr(p, off)
            if op == 'sub':
                if isinstance(a, Ptr) and isinstance(b, Ptr):
                    if a.obj is b.obj:
                        r = aff_add(a.off, b.off, 64, -1)
                        return r if r is not None else self._nonaff_of(a.off, b.off)
                    if bits == 64 and self._inb(a) and self._inb(b):
                        return PtrDiff(a, b)
                    return OPAQUE
                if isinstance(a, Ptr):
                    r = aff_add(a.off, b, 64, -1)
                    if r is None:
                        x = self._nonaff_of(b)
                        return x if isinstance(x, NonAff) else self._unknown_ptr(a)
                    return self._ptr(a, r)
                return OPAQUE
            if op == 'and' and isinstance(b, Ptr) and is_int(a):
                a, b = b, a
            if op == 'and' and isinstance(a, Ptr) and is_int(b):
                low = (~b) & m
                al = getattr(a.obj, 'align', 8)
                if low & (low + 1) == 0 and is_int(a.off):
                    # align-down idiom  p & -2^t (usually after + 2^t - 1)
                    if al >= low + 1:
                        return self._ptr(a, a.off & b & m)
                    # the object is only `al`-aligned: the result is one of x - (x mod al) - al*j, j = 0 .. 2^t/al - 1
                    x = a.off
                    hi = x - (x % al)
                    lo = hi - (low + 1 - al)
                    return self._ptr(a, lo & m, slack=a.slack + (low + 1 - al))
                if low & (low + 1) == 0 and isinstance(a.off, Aff):
                    return NonAff(next(iter(a.off.co)))
                if b < 4096 and is_int(a.off):
                    # p & small mask: the low address bits
                    if b & (al - 1) == b and a.slack == 0:
                        return a.off & b
                    return AlignDep(a.off & b)
                return OPAQUE
            if op in ('or', 'and', 'xor') and (isinstance(a, (Ptr, PtrBits)) and isinstance(b, (Ptr, PtrBits))):
                ps = []
                for x in (a, b):
                    ps += [x] if isinstance(x, Ptr) else list(x.ptrs)
                return PtrBits(tuple(ps))
            return OPAQUE
        if isinstance(a, PtrBits) or isinstance(b, PtrBits):
            pb, o = (a, b) if isinstance(a, PtrBits) else (b, a)
            if op == 'and' and is_int(o) and o < 4096 and all(is_int(p.off) for p in pb.ptrs):
                al = min(getattr(p.obj, 'align', 8) for p in pb.ptrs)
                val = 0
                for p in pb.ptrs:
                    val |= p.off & o
                if o & (al - 1) == o and not any(p.slack for p in pb.ptrs):
                    return val
                return AlignDep(val)
            if op in ('or', 'and', 'xor') and isinstance(o, (Ptr, PtrBits)):
                return PtrBits(tuple(pb.ptrs) + (tuple(o.ptrs) if isinstance(o, PtrBits) else (o,)))
            return OPAQUE
        if isinstance(a, AlignDep) or isinstance(b, AlignDep):
            x = a.assume if isinstance(a, AlignDep) else a
            y = b.assume if isinstance(b, AlignDep) else b
            if is_int(x) and is_int(y):
                r = self.binop(op, x, y, bits, i)
                if is_int(r):
                    return AlignDep(r)
            return OPAQUE
        if isinstance(a, (Opaque, float)) or isinstance(b, (Opaque, float)) or a is None or b is None:
            if isinstance(a, NonAff):
                return a
            if isinstance(b, NonAff):
                return b
            return OPAQUE
        if isinstance(a, NonAff):
            return a
        if isinstance(b, NonAff):
            return b
        if isinstance(a, FnPtr) or isinstance(b, FnPtr):
            return OPAQUE
        # at least one Aff
        if op == 'add':
            return aff_add(a, b, bits)
        if op == 'sub':
            return aff_add(a, b, bits, -1)
        if op == 'mul':
            if is_int(b):
                return aff_mul(a, b, bits)
            if is_int(a):
                return aff_mul(b, a, bits)
            return self._nonaff_of(a, b)
        if op == 'shl' and is_int(b) and b < bits:
            return aff_mul(a, 1 << b, bits)
        if op == 'or' and is_int(b) and isinstance(a, Aff):
            t = b.bit_length()
            if a.c0 & b == 0 and all(c % (1 << t) == 0 for c in a.co.values()):
                return aff_add(a, b, bits)
            return self._nonaff_of(a)
        return self._nonaff_of(a, b)

    def _ptr(self, p, off, slack=None):
        return Ptr(p.obj, off, p.via, p.slack if slack is None else slack)

    def _unknown_ptr(self, p):
        return OPAQUE

    @staticmethod
    def _inb(p):
        return is_int(p.off) and not p.slack and is_int(p.obj.size) and 0 <= p.off < p.obj.size

    def icmp(self, pred, a, b, bits, i):
        if isinstance(a, PtrDiff) and a.abs and is_int(b) and bits == 64 and pred in ('ult', 'ule', 'ugt', 'uge'):
            # |p - q| against a length: decided when the bound that holds in either order of the two objects decides it
            lo = a.lower()
            if lo > b or (lo == b and pred in ('ult', 'uge')):
                return int(pred in ('ugt', 'uge'))
            return OPAQUE
        if isinstance(a, AlignDep) or isinstance(b, AlignDep):
            x = a.assume if isinstance(a, AlignDep) else a
            y = b.assume if isinstance(b, AlignDep) else b
            if is_int(x) and is_int(y):
                return AlignDep(int(icmp_eval(pred, x, y, bits)))
            return OPAQUE
        if isinstance(a, NonAff) or isinstance(b, NonAff):
            raise NeedEnum((a if isinstance(a, NonAff) else b).key, 'comparison at %s' % i.loc)
        if isinstance(a, Ptr) or isinstance(b, Ptr):
            if isinstance(a, Ptr) and isinstance(b, Ptr):
                if a.obj is not b.obj:
                    if pred == 'eq':
                        return 0
                    if pred == 'ne':
                        return 1
                    if self._inb(a) and self._inb(b) and pred[0] == 'u':
                        # distinct objects, both pointers inside theirs: the order of the pointers is the order of the objects
                        return PtrAfter(a.obj, b.obj) if pred in ('ugt', 'uge') else PtrAfter(b.obj, a.obj)
                    return OPAQUE
                d = aff_add(a.off, b.off, 64, -1)
                if d is None:
                    return OPAQUE
                if isinstance(d, Aff):
                    return self._aff_cmp(pred, d, 0, 64, i, signed_cmp=True)
                # same object: compare offsets as signed quantities
                sa = signed(a.off if is_int(a.off) else 0, 64) if is_int(a.off) else None
                dd = signed(d, 64)
                return int({'eq': dd == 0, 'ne': dd != 0, 'ult': dd < 0, 'ule': dd <= 0, 'ugt': dd > 0, 'uge': dd >= 0,
                            'slt': dd < 0, 'sle': dd <= 0, 'sgt': dd > 0, 'sge': dd >= 0}[pred])
            p, o = (a, b) if isinstance(a, Ptr) else (b, a)
            if is_int(o) and o == 0:
                # a pointer into an object is never null
                return int(pred in ('ne', 'ugt', 'uge') if p is a else pred in ('ne', 'ult', 'ule'))
            return OPAQUE
        if isinstance(a, FnPtr) or isinstance(b, FnPtr):
            if is_int(a) or is_int(b):
                z = a if is_int(a) else b
                if z == 0:
                    return int(pred == 'ne')
            if isinstance(a, FnPtr) and isinstance(b, FnPtr):
                return int((a.name == b.name) == (pred == 'eq'))
            return OPAQUE
        if is_int(a) and is_int(b):
            return int(icmp_eval(pred, a, b, bits))
        if isinstance(a, (Opaque, float)) or isinstance(b, (Opaque, float)) or a is None or b is None:
            return OPAQUE
        # Aff involved
        d = aff_add(a, b, bits, -1)
        if isinstance(a, Aff) and is_int(b):
            return self._aff_cmp(pred, a, b, bits, i)
        if isinstance(b, Aff) and is_int(a):
            return self._aff_cmp(SWAP[pred], b, a, bits, i)
        # both affine: compare difference with 0 when that is meaningful (eq/ne), else enumerate
        if pred in ('eq', 'ne') and d is not None:
            if is_int(d):
                return int((d == 0) == (pred == 'eq'))
            return self._aff_cmp(pred, d, 0, bits, i)
        raise NeedEnum(next(iter((a if isinstance(a, Aff) else b).co)), 'comparison of two counter-dependent values at %s' % i.loc)

    def _aff_cmp(self, pred, a, c, bits, i, signed_cmp=False):
        r = self.aff_range(a)
        key = next(iter(a.co))
        if r is None:
            raise NeedEnum(key, 'comparison at %s' % i.loc)
        lo, hi = r
        M = 1 << bits
        if pred in ('slt', 'sle', 'sgt', 'sge') or signed_cmp:
            # interpret c0 as signed; extremes exact integers
            base_shift = a.c0 - signed(a.c0, bits)
            lo -= base_shift
            hi -= base_shift
            cc = signed(c, bits)
            if lo < -(M >> 1) or hi >= (M >> 1):
                raise NeedEnum(key, 'comparison wraps at %s' % i.loc)
            p = {'slt': 'ult', 'sle': 'ule', 'sgt': 'ugt', 'sge': 'uge'}.get(pred, pred)
        else:
            if lo < 0 or hi >= M:
                raise NeedEnum(key, 'comparison wraps at %s' % i.loc)
            cc = c
            p = pred

        def ev(x):
            return {'eq': x == cc, 'ne': x != cc, 'ult': x < cc, 'ule': x <= cc, 'ugt': x > cc, 'uge': x >= cc}[p]

        if p == 'eq':
            if cc < lo or cc > hi:
                return 0
            raise NeedEnum(key, 'equality inside the counter range at %s' % i.loc)
        if p == 'ne':
            if cc < lo or cc > hi:
                return 1
            raise NeedEnum(key, 'equality inside the counter range at %s' % i.loc)
        x, y = ev(lo), ev(hi)
        if x == y:
            return int(x)
        raise NeedEnum(key, 'guard depends on the loop counter at %s' % i.loc)

    def cast(self, op, v, i):
        if isinstance(v, (AlignDep, PtrBits)) and op in ('zext', 'sext', 'trunc', 'ptrtoint', 'inttoptr', 'bitcast'):
            return v
        sb = i['srcty'].get('bits')
        db = i.ty.get('bits')
        if i.ty.get('k') == 'vec' or i['srcty'].get('k') == 'vec':
            return OPAQUE
        if op in ('bitcast', 'addrspacecast'):
            if isinstance(v, float) and i.ty.get('k') == 'int':
                import struct
                return struct.unpack('<Q', struct.pack('<d', v))[0]
            if is_int(v) and i.ty.get('k') == 'fp' and db == 64:
                import struct
                return struct.unpack('<d', struct.pack('<Q', v & mask(64)))[0]
            return v
        if op in ('ptrtoint', 'inttoptr'):
            return v
        if op == 'trunc':
            if is_int(v):
                return v & mask(db)
            if isinstance(v, Aff):
                return mk_aff(v.c0, v.co, db)
            if isinstance(v, Ptr):
                return OPAQUE
            return v
        if op == 'zext':
            if is_int(v):
                return v & mask(sb)
            if isinstance(v, Aff):
                r = self.aff_range(Aff(v.c0, v.co, sb))
                if r is not None and r[0] >= 0 and r[1] < (1 << sb):
                    return Aff(v.c0, dict(v.co), db)
                return NonAff(next(iter(v.co)))
            return v
        if op == 'sext':
            if is_int(v):
                return signed(v, sb) & mask(db)
            if isinstance(v, Aff):
                s0 = signed(v.c0, sb)
                r = self.aff_range(Aff(v.c0, v.co, sb))
                if r is not None:
                    lo, hi = r[0] - (v.c0 - s0), r[1] - (v.c0 - s0)
                    if lo >= -(1 << (sb - 1)) and hi < (1 << (sb - 1)):
                        return mk_aff(s0, {k: signed(c, sb) for k, c in v.co.items()}, db)
                return NonAff(next(iter(v.co)))
            return v
        if op in ('sitofp', 'uitofp'):
            if is_int(v):
                return float(signed(v, sb)) if op == 'sitofp' else float(v & mask(sb))
            return OPAQUE if not isinstance(v, (Aff, NonAff)) else OPAQUE
        if op in ('fptosi', 'fptoui'):
            if isinstance(v, float) and v == v and abs(v) < 2 ** 63:
                return int(v) & mask(db)
            return OPAQUE
        if op == 'fptrunc':
            if isinstance(v, float) and db == 32:
                import struct
                try:
                    return struct.unpack('<f', struct.pack('<f', v))[0]
                except (OverflowError, struct.error):
                    return OPAQUE
            return v if isinstance(v, float) else OPAQUE
        if op == 'fpext':
            return v if isinstance(v, float) else OPAQUE
        raise Unsupported('cast ' + op)

    # ------------------------------------------------------------------------------------------ references
    def ref(self, fr, r):
        k = r['k']
        if k == 'i':
            try:
                return fr.env[r['v']]
            except KeyError:
                raise Unsupported('use of value %%%d before definition in %s' % (r['v'], fr.f.name))
        if k == 'a':
            return fr.args[r['v']]
        if k == 'c':
            return int(r['v'])
        if k == 'f':
            return float(r['v']) if r['v'] is not None else OPAQUE
        if k == 'n':
            return 0
        if k == 'u':
            return UNINIT
        if k == 'g':
            if r.get('fn'):
                return FnPtr(r['v'])
            if r.get('alias'):
                return FnPtr(self.lib.aliases.get(r['v'], r['v']))
            return Ptr(self.global_obj(fr.f.unit, r['v']), 0)
        if k == 'ce':
            op = r['op']
            if op in ('bitcast', 'addrspacecast', 'ptrtoint', 'inttoptr'):
                return self.ref(fr, r['ops'][0])
            if op == 'getelementptr':
                return self.gep(fr, r['gep'])
            return OPAQUE
        if k in ('cv', 'z'):
            return OPAQUE
        return OPAQUE

    def gep(self, fr, g):
        base = self.ref(fr, g['base'])
        off = g['const']
        for r, sc in g['terms']:
            v = self.ref(fr, r)
            if isinstance(v, NonAff):
                return v
            t = aff_mul(v, sc) if (is_int(v) or isinstance(v, Aff)) else None
            if t is None:
                if isinstance(base, Ptr):
                    return OPAQUE
                return OPAQUE
            off = aff_add(off, t)
        if isinstance(base, Ptr):
            no = aff_add(base.off, off)
            if no is None:
                return self._nonaff_of(base.off, off)
            return self._ptr(base, no)
        if is_int(base) and base == 0:
            return off  # pointer arithmetic on NULL (stays a non-pointer)
        if isinstance(base, NonAff):
            return base
        return OPAQUE

    # ------------------------------------------------------------------------------------------ CFG regions
    def regions(self, f):
        """per loop id (None = function top level): nodes in topological order; node = ('b', id) | ('l', loop id)"""
        if f.key in self.regions_cache:
            return self.regions_cache[f.key]
        # reverse post-order ignoring back edges
        order = []
        seen = set()
        hdrs = {l.header: l for l in f.loops}

        def is_back(a, b):
            l = hdrs.get(b)
            return l is not None and a in l.blocks

        stack = [(0, iter(f.blocks[0].succs))]
        seen.add(0)
        while stack:
            b, it = stack[-1]
            adv = False
            for s in it:
                if is_back(b, s) or s in seen:
                    continue
                seen.add(s)
                stack.append((s, iter(f.blocks[s].succs)))
                adv = True
                break
            if not adv:
                order.append(b)
                stack.pop()
        order.reverse()
        pos = {b: i for i, b in enumerate(order)}
        reg = {None: []}
        for l in f.loops:
            reg[l.id] = []
        for b in order:
            lid = f.blocks[b].loop
            reg[lid].append(('b', b))
            if lid is not None and f.loops[lid].header == b:
                par = f.loops[lid].parent
                reg[par].append(('l', lid))
        # a loop node sits at the position of its header: since we appended ('l') right when visiting the header, but the
        # header itself belongs to the child region, order within the parent is preserved.
        self.regions_cache[f.key] = reg
        return reg

    def run_function(self, fr):
        f = fr.f
        res = self.run_region(fr, None, 0)
        return res.get('ret')

    def run_region(self, fr, lid, entry, sym_key=None, forced_continue=False):
        """walk the acyclic region of loop `lid` (None: function body) from block `entry`.
        returns dict(exit=(from,to) | None, latch=bool, ret=value)"""
        f = fr.f
        reg = self.regions(f)[lid]
        L = f.loops[lid] if lid is not None else None
        reached = {entry: True}
        out = {'exit': None, 'latch': False}
        for kind, nid in reg:
            if kind == 'l':
                C = f.loops[nid]
                if not reached.get(C.header):
                    continue
                ex = self.run_loop(fr, nid)
                if ex is None:
                    continue
                frm, to = ex
                fr.taken[to] = frm
                if L is not None and to not in L.blocks:
                    out['exit'] = ex
                    return out
                reached[to] = True
                continue
            b = f.blocks[nid]
            if not reached.get(nid):
                continue
            # phis (header phis of the current loop are bound by run_loop)
            newvals = {}
            for i in b.instrs:
                if i.op != 'phi':
                    break
                if L is not None and nid == L.header:
                    if i.id in fr.phi:
                        newvals[i.id] = fr.phi[i.id]
                        continue
                    raise Unsupported('unbound header phi in ' + f.name)
                pred = fr.taken.get(nid)
                v = None
                found = False
                for val, pb in i['incoming']:
                    if pb == pred:
                        v = self.ref(fr, val)
                        found = True
                        break
                if not found:
                    raise Unsupported('phi without matching predecessor in %s block %d' % (f.name, nid))
                newvals[i.id] = v
            fr.env.update(newvals)
            for i in b.instrs:
                if i.op == 'phi':
                    continue
                r = self.step(fr, i, L, sym_key)
                if r is None:
                    continue
                tag = r[0]
                if tag == 'ret':
                    out['ret'] = r[1]
                    return out
                if tag == 'goto':
                    t = r[1]
                    fr.taken[t] = nid
                    if L is not None and t == L.header:
                        out['latch'] = True
                        return out
                    if L is not None and t not in L.blocks:
                        out['exit'] = (nid, t)
                        return out
                    reached[t] = True
        if lid is None:
            raise Unsupported('function body of %s ended without return' % f.name)
        return out

    def step(self, fr, i, L, sym_key):
        op = i.op
        env = fr.env
        f = fr.f
        if op == 'getelementptr':
            env[i.id] = self.gep(fr, i['gep'])
        elif op == 'load':
            env[i.id] = self.load(self.ref(fr, i.ops[0]), i.ty, i.loc, i['align'])
        elif op == 'store':
            self.store(self.ref(fr, i.ops[1]), self.ref(fr, i.ops[0]), i['valty'], i.loc, i['align'])
        elif op in ('add', 'sub', 'mul', 'and', 'or', 'xor', 'shl', 'lshr', 'ashr', 'udiv', 'urem', 'sdiv', 'srem'):
            if i.ty.get('k') != 'int':
                env[i.id] = OPAQUE
            else:
                env[i.id] = self.binop(op, self.ref(fr, i.ops[0]), self.ref(fr, i.ops[1]), i.ty['bits'], i)
        elif op == 'icmp':
            a, b = self.ref(fr, i.ops[0]), self.ref(fr, i.ops[1])
            if i.ty.get('k') == 'vec':
                env[i.id] = OPAQUE
            else:
                # the exit test of an accelerated loop is decided by the closed-form trip count, not here
                if sym_key is not None and (L is not None) and self._is_exit_cond(f, L, i):
                    env[i.id] = ('exitcond', i.id)
                else:
                    bits = 64
                    oty = self._optype(f, i.ops[0], fr)
                    if oty:
                        bits = oty
                    env[i.id] = self.icmp(i['pred'], a, b, bits, i)
        elif op in ('bitcast', 'trunc', 'zext', 'sext', 'ptrtoint', 'inttoptr', 'sitofp', 'uitofp', 'fptosi', 'fptoui', 'fpext',
                    'fptrunc', 'addrspacecast'):
            if op in ('sitofp', 'sext', 'uitofp'):
                self._widen_watch(fr, i)
            env[i.id] = self.cast(op, self.ref(fr, i.ops[0]), i)
        elif op in ('fadd', 'fsub', 'fmul', 'fdiv', 'frem', 'fneg'):
            vs = [self.ref(fr, o) for o in i.ops]
            if i.ty.get('k') == 'fp' and all(isinstance(v, float) for v in vs):
                try:
                    if op == 'fadd':
                        env[i.id] = vs[0] + vs[1]
                    elif op == 'fsub':
                        env[i.id] = vs[0] - vs[1]
                    elif op == 'fmul':
                        env[i.id] = vs[0] * vs[1]
                    elif op == 'fdiv':
                        env[i.id] = vs[0] / vs[1] if vs[1] != 0 else OPAQUE
                    elif op == 'fneg':
                        env[i.id] = -vs[0]
                    else:
                        env[i.id] = OPAQUE
                except OverflowError:
                    env[i.id] = OPAQUE
            else:
                env[i.id] = OPAQUE
        elif op == 'fcmp':
            a, b = self.ref(fr, i.ops[0]), self.ref(fr, i.ops[1])
            if isinstance(a, float) and isinstance(b, float):
                p = i['pred']
                un = a != a or b != b
                r = {'oeq': a == b, 'one': a != b, 'olt': a < b, 'ole': a <= b, 'ogt': a > b, 'oge': a >= b, 'ueq': a == b,
                     'une': a != b, 'ult': a < b, 'ule': a <= b, 'ugt': a > b, 'uge': a >= b, 'ord': not un, 'uno': un,
                     'true': True, 'false': False}.get(p)
                if r is None:
                    env[i.id] = OPAQUE
                else:
                    if un:
                        r = p.startswith('u') or p == 'true'
                    env[i.id] = int(r)
            else:
                env[i.id] = OPAQUE
        elif op == 'select':
            c = self.ref(fr, i.ops[0])
            if isinstance(c, NonAff):
                raise NeedEnum(c.key, 'select at %s' % i.loc)
            if isinstance(c, tuple):
                raise NeedEnum(sym_key, 'select on the loop exit condition')
            a, b = self.ref(fr, i.ops[1]), self.ref(fr, i.ops[2])
            if is_int(c):
                env[i.id] = a if c & 1 else b
            elif isinstance(c, AlignDep):
                self.emit('X', None, 0, i.loc, note='alignment-dependent select: the value depends on the address bits of a caller buffer')
                env[i.id] = a if c.assume & 1 else b
            elif (isinstance(c, PtrAfter) and isinstance(a, PtrDiff) and isinstance(b, PtrDiff) and not a.abs and not b.abs
                  and a.p.obj is c.A and a.q.obj is c.B and b.p.obj is c.B and b.q.obj is c.A
                  and a.p.off == b.q.off and a.q.off == b.p.off):
                # c ? p - q : q - p with c = `p's object lies after q's`: the distance |p - q|
                env[i.id] = PtrDiff(a.p, a.q, abs=True)
            else:
                env[i.id] = a if self._same(a, b) else OPAQUE
        elif op == 'call':
            return self.do_call(fr, i)
        elif op == 'br':
            if not i.ops:
                return ('goto', i['then'])
            c = self.ref(fr, i.ops[0])
            if isinstance(c, tuple) and c[0] == 'exitcond':
                # accelerated iteration: stay in the loop
                t, e = i['then'], i['else']
                return ('goto', t if t in L.blocks else e)
            if isinstance(c, NonAff):
                raise NeedEnum(c.key, 'branch at %s' % i.loc)
            if is_int(c):
                return ('goto', i['then'] if c & 1 else i['else'])
            return self.data_branch(fr, i, c)
        elif op == 'switch':
            c = self.ref(fr, i.ops[0])
            if isinstance(c, NonAff):
                raise NeedEnum(c.key, 'switch at %s' % i.loc)
            if isinstance(c, Aff):
                raise NeedEnum(next(iter(c.co)), 'switch at %s' % i.loc)
            if is_int(c):
                for v, t in i['cases']:
                    if int(v) == c:
                        return ('goto', t)
                return ('goto', i['default'])
            return self.data_branch(fr, i, c)
        elif op == 'ret':
            return ('ret', self.ref(fr, i.ops[0]) if i.ops else None)
        elif op == 'unreachable':
            raise Aborted(i.loc)
        elif op == 'alloca':
            sz = i.get('allocbytes')
            o = self.new_obj('alloca', '%s.%%%d' % (f.name, i.id), sz, True)
            fr.allocas.append(o)
            env[i.id] = Ptr(o, 0)
        elif op in ('shufflevector', 'insertelement', 'extractelement', 'extractvalue', 'insertvalue', 'freeze'):
            if op == 'freeze':
                env[i.id] = self.ref(fr, i.ops[0])
            else:
                env[i.id] = OPAQUE
        else:
            raise Unsupported('opcode %s in %s at %s' % (op, f.name, i.loc))
        return None

    def _widen_watch(self, fr, i):
        """integer computed in a narrow type and then widened: the narrow operation must not have overflowed"""
        r = i.ops[0]
        if r.get('k') != 'i':
            return
        src = fr.f.instrs[r['v']]
        if src.op not in ('shl', 'add', 'sub', 'mul') or src.ty.get('k') != 'int':
            return
        bits = src.ty['bits']
        if bits >= 64:
            return
        a, b = self.ref(fr, src.ops[0]), self.ref(fr, src.ops[1])
        if not (is_int(a) and is_int(b)):
            return
        sgn = i.op in ('sitofp', 'sext')
        if sgn:
            xa, xb = signed(a, bits), (signed(b, bits) if src.op != 'shl' else b)
        else:
            xa, xb = a & mask(bits), b & mask(bits)
        if src.op == 'shl':
            exact = xa << xb if xb < 4096 else None
        elif src.op == 'add':
            exact = xa + xb
        elif src.op == 'sub':
            exact = xa - xb
        else:
            exact = xa * xb
        if exact is None:
            return
        lo, hi = (-(1 << (bits - 1)), (1 << (bits - 1)) - 1) if sgn else (0, (1 << bits) - 1)
        if not (lo <= exact <= hi):
            self.emit('X', None, 0, src.loc or i.loc,
                      note='narrow-overflow: %s i%d of (%d, %d) = %d does not fit before %s' % (src.op, bits, xa, xb, exact, i.op))

    def _same(self, a, b):
        if is_int(a) and is_int(b):
            return a == b
        if isinstance(a, Ptr) and isinstance(b, Ptr):
            return a.obj is b.obj and is_int(a.off) and is_int(b.off) and a.off == b.off
        if isinstance(a, FnPtr) and isinstance(b, FnPtr):
            return a == b
        return False

    def _optype(self, f, r, fr):
        k = r.get('k')
        if k == 'i':
            return f.instrs[r['v']].ty.get('bits')
        if k == 'a':
            return f.args[r['v']]['ty'].get('bits')
        if k == 'c':
            return r['bits']
        return 64

    def _is_exit_cond(self, f, L, i):
        """icmp used (only) by the conditional branch of an exiting block of L"""
        for frm, to in L.exits:
            t = f.blocks[frm].term
            if t.op == 'br' and t.ops and t.ops[0].get('k') == 'i' and t.ops[0]['v'] == i.id:
                return True
        return False

    def _abort_blocks(self, f):
        k = ('abort', f.key)
        if k in self.regions_cache:
            return self.regions_cache[k]
        err = set()
        for b in f.blocks:
            for j in b.instrs:
                if j.op == 'call' and (j.get('callee') in ('abort', 'exit', '__assert_fail', 'spqlios_error') or j.get('noreturn')):
                    err.add(b.id)
            if b.term.op == 'unreachable':
                err.add(b.id)
        changed = True
        while changed:
            changed = False
            for b in f.blocks:
                if b.id not in err and b.succs and all(s in err for s in b.succs):
                    err.add(b.id)
                    changed = True
        self.regions_cache[k] = err
        return err

    def data_branch(self, fr, i, c):
        """branch on a data value: only the assertion idiom `if (table data inconsistent) abort();` is in the catalogue"""
        if isinstance(c, AlignDep) and i.op == 'br':
            # the path taken depends on the byte alignment of a caller buffer: reported, then followed as if aligned
            self.emit('X', None, 0, i.loc, note='alignment-dependent branch: the path depends on the address bits of a caller buffer')
            return ('goto', i['then'] if c.assume & 1 else i['else'])
        if i.op == 'br':
            err = self._abort_blocks(fr.f)
            t, e = i['then'], i['else']
            if (t in err) != (e in err):
                self.assumed.add(i.loc)
                return ('goto', e if t in err else t)
        dec = getattr(self, 'decisions', None)
        if dec is not None and i.op == 'br':
            # path enumeration: the branch is decided by the scheduled decision sequence (the same condition gets the same
            # decision within a run); the driver re-runs the call for every sequence and collects the path conditions
            key = c if hasattr(c, 'e') else None
            if key is not None:
                memo = self.decision_memo
                if key in memo:
                    d = memo[key]
                else:
                    k = len(self.decision_log)
                    if k >= len(dec):
                        from .vals import NeedDecision
                        raise NeedDecision()
                    d = dec[k]
                    memo[key] = d
                    self.decision_log.append((c, d, i.loc))
                return ('goto', i['then'] if d else i['else'])
        raise Unsupported('data-dependent control flow in %s at %s' % (fr.f.name, i.loc))

    # ------------------------------------------------------------------------------------------ calls (IR level)
    def do_call(self, fr, i):
        f = fr.f
        args = [self.ref(fr, o) for o in i.ops]
        c = i.get('callee')
        target = None
        if c is not None:
            if i.get('intrinsic'):
                fr.env[i.id] = self.call_external(c, args, i, fr)
                return None
            target = self.lib.resolve(f.unit, c)
            if target is None:
                fr.env[i.id] = self.call_external(c, args, i, fr)
                return None
        else:
            cv = self.ref(fr, i['calleeref'])
            if isinstance(cv, FnPtr):
                target = self.lib.resolve(f.unit, cv.name) or self.lib.fn(cv.name)
                if target is None:
                    fr.env[i.id] = self.call_external(cv.name, args, i, fr)
                    return None
            elif is_int(cv) and cv == 0:
                self.emit('X', None, 0, i.loc, note='call through a null function pointer')
                raise Aborted(i.loc)
            elif isinstance(cv, NonAff):
                raise NeedEnum(cv.key, 'indirect call')
            else:
                raise Unsupported('indirect call through unknown value %r in %s at %s' % (cv, f.name, i.loc))
        self.calls_seen.append((f.name, target.name, i.loc))
        fr.env[i.id] = self.call(target, args, i.loc)
        return None

    # ------------------------------------------------------------------------------------------ loops
    def run_loop(self, fr, lid):
        f = fr.f
        L = f.loops[lid]
        info = loop_info(f, lid)
        if L.preheader is None:
            raise Unsupported('loop without preheader in ' + f.name)
        hdr = f.blocks[L.header]
        uniform_ok = (not self.expand) and not info.other and (f.key, lid, 'enum') not in self.nonuniform
        if uniform_ok:
            snap = self._snapshot(fr)
            try:
                return self._run_loop_uniform(fr, lid, L, info)
            except NeedEnum as e:
                key = getattr(fr, '_curkey', None)
                mykey = self._loopkey.get((id(fr), lid))
                if e.key != mykey:
                    self._restore(fr, snap)
                    raise
                self._restore(fr, snap)
                self.nonuniform.add((f.key, lid, 'enum'))
        return self._run_loop_enum(fr, lid, L, info)

    _loopkey = {}

    def _snapshot(self, fr):
        # events are append-only; tracked object mutation inside accelerated loops is forbidden (raises NeedEnum before
        # mutating), so restoring means truncating the event list and the rep stack
        return (len(self.events), len(self.reps), dict(fr.phi), len(fr.allocas), len(self.stack), len(self.calls_seen))

    def _restore(self, fr, snap):
        ne, nr, phi, na, ns, nc = snap
        del self.events[ne:]
        for k, c in self.reps[nr:]:
            self.repcount.pop(k, None)
        del self.reps[nr:]
        fr.phi = phi
        del fr.allocas[na:]
        del self.stack[ns:]
        del self.calls_seen[nc:]

    def _start_vals(self, fr, L, info):
        vals = {}
        for pid, (start, latch) in list(info.ivs.items()) + list(info.carried.items()) + list(info.other.items()):
            if pid in info.ivs:
                start = info.ivs[pid][0]
            vals[pid] = self.ref(fr, start)
        return vals

    def _run_loop_enum(self, fr, lid, L, info):
        f = fr.f
        hdr = f.blocks[L.header]
        vals = self._start_vals(fr, L, info)
        # closed-form pre-check to catch runaway loops before iterating
        if not info.other and info.ivs:
            try:
                T = self._trip_count(fr, lid, L, info, -1, vals, self._iv_steps(fr, info, -1))
                if T is INF or isinstance(T, tuple) or T > self.loop_cap:
                    loc = hdr.term.loc
                    for frm, to in L.exits:
                        loc = f.blocks[frm].term.loc or loc
                    self.emit('X', None, 0, loc, note='loop trip count %s (wrap-around of the loop bound)' % (T,))
                    raise Runaway(loc, T, f.name)
            except NeedEnum:
                pass
        k = 0
        fr.taken[L.header] = L.preheader
        while True:
            fr.phi.update(vals)
            res = self.run_region(fr, lid, L.header)
            if 'ret' in res:
                return ('ret', res['ret'])
            if res['exit'] is not None:
                return res['exit']
            if not res['latch']:
                raise Unsupported('loop body of %s ended without reaching latch or exit' % f.name)
            # next values
            latchb = fr.taken.get(L.header)
            nv = {}
            for i in hdr.instrs:
                if i.op != 'phi':
                    break
                for val, pb in i['incoming']:
                    if pb == latchb:
                        nv[i.id] = self.ref(fr, val)
                        break
            vals = nv
            k += 1
            if k > self.loop_cap:
                loc = hdr.term.loc or hdr.instrs[0].loc
                self.emit('X', None, 0, loc, note='loop exceeds %d iterations' % self.loop_cap)
                raise Runaway(loc, '> %d' % self.loop_cap, f.name)

    def _exit_tests(self, fr, L, info, key, kval):
        """closed-form trip count: returns (T, exiting edge) or raises NeedEnum(key)"""
        f = fr.f
        best = None
        for frm, to in L.exits:
            t = f.blocks[frm].term
            if t.op != 'br' or not t.ops:
                raise NeedEnum(key, 'exit through %s' % t.op)
            if not all(f.dominates(frm, l) for l in L.latches) and frm != L.header:
                raise NeedEnum(key, 'conditional exit')
            cr = t.ops[0]
            if cr.get('k') != 'i':
                raise NeedEnum(key, 'constant exit condition')
            ci = f.instrs[cr['v']]
            if ci.op != 'icmp' or ci.block.id not in L.blocks:
                raise NeedEnum(key, 'exit condition is not a comparison')
            exit_on_true = (t['then'] == to)
            yield frm, to, ci, exit_on_true


    def _iv_steps(self, fr, info, key):
        f = fr.f
        steps = {}
        for pid, (start, chain) in info.ivs.items():
            tot = 0
            for (sc, r, b) in chain:
                if r is None:
                    tot += sc
                    continue
                v = self.ref(fr, r)
                if isinstance(v, Aff):
                    raise NeedEnum(next(iter(v.co)), 'loop step depends on an outer counter')
                if isinstance(v, NonAff):
                    raise NeedEnum(v.key, 'loop step')
                if not is_int(v):
                    raise NeedEnum(key, 'loop step is not an integer')
                tot += sc * (signed(v, b) if sc not in (1, -1) else v)
            steps[pid] = tot
        return steps

    def _run_loop_uniform(self, fr, lid, L, info):
        f = fr.f
        hdr = f.blocks[L.header]
        self.nkey += 1
        key = self.nkey
        self._loopkey[(id(fr), lid)] = key
        starts = self._start_vals(fr, L, info)
        steps = self._iv_steps(fr, info, key)
        has_carried = bool(info.carried)
        fr.taken[L.header] = L.preheader

        def sym_vals(kbase):
            out = {}
            for pid in info.ivs:
                s0 = starts[pid]
                bits = f.instrs[pid].ty.get('bits', 64)
                st = steps[pid]
                if isinstance(s0, Ptr):
                    o = aff_add(s0.off, mk_aff(st * kbase, {key: st}, 64))
                    if o is None:
                        raise NeedEnum(key, 'pointer IV with unknown offset')
                    out[pid] = Ptr(s0.obj, o, s0.via)
                elif is_int(s0) or isinstance(s0, Aff):
                    out[pid] = aff_add(s0, mk_aff(st * kbase, {key: st}, bits), bits)
                else:
                    raise NeedEnum(key, 'IV start is not an integer or pointer')
            return out

        def conc_vals(k):
            out = {}
            for pid in info.ivs:
                s0 = starts[pid]
                bits = f.instrs[pid].ty.get('bits', 64)
                st = steps[pid]
                if isinstance(s0, Ptr):
                    out[pid] = Ptr(s0.obj, aff_add(s0.off, (st * k) & mask(64)), s0.via)
                else:
                    out[pid] = aff_add(s0, (st * k) & mask(bits), bits)
            return out

        # trip count: evaluate the header..exit tests symbolically
        # bind phis symbolically with a provisional huge count so that range checks are conservative
        T = self._trip_count(fr, lid, L, info, key, starts, steps)
        if T is INF or isinstance(T, tuple) or T > self.loop_cap * 64:
            loc = hdr.term.loc or (hdr.instrs[0].loc if hdr.instrs else None)
            for frm, to in L.exits:
                loc = f.blocks[frm].term.loc or loc
            self.emit('X', None, 0, loc, note='loop trip count %s (wrap-around of the loop bound)' % (T,))
            raise Runaway(loc, T, f.name)
        k0 = 0
        carried_now = {pid: starts[pid] for pid in info.carried}
        if has_carried and T > 0:
            # peel iteration 0 (carried phis hold their start value only there)
            fr.phi.update(conc_vals(0))
            fr.phi.update(carried_now)
            res = self.run_region(fr, lid, L.header)
            if 'ret' in res:
                return ('ret', res['ret'])
            if res['exit'] is not None:
                raise NeedEnum(key, 'exit during peeled iteration')
            latchb = fr.taken.get(L.header)
            for pid, (start, latch) in info.carried.items():
                carried_now[pid] = self.ref(fr, latch)
            k0 = 1
        if T - k0 > 0:
            self.reps.append((key, T - k0))
            self.repcount[key] = T - k0
            try:
                fr.phi.update(sym_vals(k0))
                fr.phi.update(carried_now)
                res = self.run_region(fr, lid, L.header, sym_key=key)
                if 'ret' in res or res['exit'] is not None:
                    raise NeedEnum(key, 'early exit in accelerated body')
            finally:
                self.reps.pop()
                self.repcount.pop(key, None)
            if has_carried and k0 == 0:
                pass
        # final partial iteration (takes the exit; binds live-out values)
        fr.phi.update(conc_vals(T))
        if has_carried:
            if T >= 1:
                for pid, (start, latch) in info.carried.items():
                    carried_now[pid] = self.ref(fr, latch) if T >= 1 else starts[pid]
            fr.phi.update(carried_now)
        if T > 0:
            fr.taken[L.header] = L.latches[0]
        res = self.run_region(fr, lid, L.header)
        if 'ret' in res:
            return ('ret', res['ret'])
        if res['exit'] is None:
            raise Unsupported('closed-form trip count disagrees with the exit test in %s (loop at %s)' % (f.name, hdr.term.loc))
        return res['exit']

    def _trip_count(self, fr, lid, L, info, key, starts, steps):
        """least k at which some exit test fires; exit tests must compare an IV-affine value with an invariant"""
        f = fr.f
        best = INF
        for frm, to, ci, exit_on_true in self._exit_tests(fr, L, info, key, None):
            bits = self._optype(f, ci.ops[0], fr) or 64
            sides = []
            for o in ci.ops:
                sides.append(self._affine_in_iv(fr, L, info, o, starts, steps, key))
            (l0, ls), (r0, rs) = sides
            pred = ci['pred']
            # continue-condition
            cpred = NEG[pred] if exit_on_true else pred
            # move everything to the left: (l0 - r0) + (ls - rs) k   cmp 0   is only valid for eq/ne; otherwise need rs == 0
            if rs != 0 and ls == 0:
                cpred = SWAP[cpred]
                l0, ls, r0, rs = r0, rs, l0, ls
            if rs != 0:
                if cpred in ('eq', 'ne'):
                    l0, ls, r0 = (l0 - r0), (ls - rs), 0
                else:
                    raise NeedEnum(key, 'both sides of the exit test vary')
            if isinstance(l0, Ptr) or isinstance(r0, Ptr):
                if not (isinstance(l0, Ptr) and isinstance(r0, Ptr) and l0.obj is r0.obj):
                    raise NeedEnum(key, 'pointer exit test against another object')
                # compare offsets as signed quantities (shift by 2^63 keeps the order)
                a0, b0 = l0.off, r0.off
                if not (is_int(a0) and is_int(b0)):
                    kk = None
                    for v in (a0, b0):
                        if isinstance(v, Aff):
                            kk = next(iter(v.co))
                    raise NeedEnum(kk if kk is not None else key, 'pointer exit test depends on an outer counter')
                sh = 1 << 63
                l0, r0 = (a0 + sh) & mask(64), (b0 + sh) & mask(64)
                bits = 64
            if isinstance(l0, Aff) or isinstance(r0, Aff):
                v = l0 if isinstance(l0, Aff) else r0
                raise NeedEnum(next(iter(v.co)), 'exit test depends on an outer counter')
            if not (is_int(l0) and is_int(r0)):
                raise NeedEnum(key, 'exit test operands are not integers (%r, %r)' % (l0, r0))
            t = first_fail(cpred, l0, ls, r0, bits)
            if isinstance(t, tuple):
                t = INF if best is INF else best
                if best is INF:
                    return ('huge', 0)
            if t < best:
                best = t
        return best

    def _affine_in_iv(self, fr, L, info, ref, starts, steps, key, depth=0):
        """value of `ref` at iteration k as (value at k=0, step per iteration); raises NeedEnum if not affine"""
        f = fr.f
        if depth > 12:
            raise NeedEnum(key, 'exit expression too deep')
        if ref.get('k') != 'i' or f.instrs[ref['v']].block.id not in L.blocks:
            return self.ref(fr, ref), 0
        i = f.instrs[ref['v']]
        if i.id in info.ivs:
            return starts[i.id], steps[i.id]
        if i.id in info.carried or i.id in info.other:
            raise NeedEnum(key, 'exit test on a non-IV phi')
        if i.op in ('add', 'sub'):
            a0, as_ = self._affine_in_iv(fr, L, info, i.ops[0], starts, steps, key, depth + 1)
            b0, bs = self._affine_in_iv(fr, L, info, i.ops[1], starts, steps, key, depth + 1)
            bits = i.ty['bits']
            sg = 1 if i.op == 'add' else -1
            if isinstance(a0, Ptr) or isinstance(b0, Ptr):
                raise NeedEnum(key, 'pointer arithmetic in exit test')
            v0 = aff_add(a0, b0, bits, sg)
            if v0 is None:
                raise NeedEnum(key, 'exit test on data')
            return v0, as_ + sg * bs
        if i.op == 'mul':
            a0, as_ = self._affine_in_iv(fr, L, info, i.ops[0], starts, steps, key, depth + 1)
            b0, bs = self._affine_in_iv(fr, L, info, i.ops[1], starts, steps, key, depth + 1)
            if bs == 0 and is_int(b0):
                v = aff_mul(a0, b0, i.ty['bits'])
                if v is None:
                    raise NeedEnum(key, 'exit test on data')
                return v, as_ * b0
            if as_ == 0 and is_int(a0):
                v = aff_mul(b0, a0, i.ty['bits'])
                if v is None:
                    raise NeedEnum(key, 'exit test on data')
                return v, bs * a0
            raise NeedEnum(key, 'non-linear exit test')
        if i.op == 'shl':
            a0, as_ = self._affine_in_iv(fr, L, info, i.ops[0], starts, steps, key, depth + 1)
            b0, bs = self._affine_in_iv(fr, L, info, i.ops[1], starts, steps, key, depth + 1)
            if bs == 0 and is_int(b0) and b0 < 64:
                v = aff_mul(a0, 1 << b0, i.ty['bits'])
                if v is None:
                    raise NeedEnum(key, 'exit test on data')
                return v, as_ << b0
            raise NeedEnum(key, 'non-linear exit test')
        if i.op == 'getelementptr':
            g = i['gep']
            b0, bs = self._affine_in_iv(fr, L, info, g['base'], starts, steps, key, depth + 1)
            off0, offs = g['const'], 0
            for r, sc in g['terms']:
                t0, ts = self._affine_in_iv(fr, L, info, r, starts, steps, key, depth + 1)
                if not (is_int(t0) or isinstance(t0, Aff)):
                    raise NeedEnum(key, 'exit test on data')
                off0 = aff_add(off0, aff_mul(t0, sc))
                offs += ts * sc
            if isinstance(b0, Ptr):
                o = aff_add(b0.off, off0)
                if o is None:
                    raise NeedEnum(key, 'exit test on data')
                return Ptr(b0.obj, o, b0.via), bs + offs
            raise NeedEnum(key, 'exit test on non-pointer gep')
        if i.op in ('bitcast', 'ptrtoint', 'inttoptr'):
            return self._affine_in_iv(fr, L, info, i.ops[0], starts, steps, key, depth + 1)
        if i.op in ('zext', 'sext', 'trunc'):
            a0, as_ = self._affine_in_iv(fr, L, info, i.ops[0], starts, steps, key, depth + 1)
            if as_ == 0 and is_int(a0):
                return self.cast(i.op, a0, i), 0
            raise NeedEnum(key, 'width change of the IV in the exit test')
        raise NeedEnum(key, 'exit test uses %s' % i.op)
