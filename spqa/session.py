"""spqa.session — a value-mode machine with a module and named caller buffers, for chained API calls."""
from .build import AnalysisBroken
from .harness import Ctx, FFT64
from .trusted import TRUSTED
from .vals import Ptr, is_int


class Session:
    def __init__(self, lib, N, cpu='accel', mtype=FFT64, values=True):
        self.lib = lib
        self.N = N
        self.c = Ctx(lib, cpu=cpu, expand=True, trusted=TRUSTED, values=values)
        self.mod = self.c.module(N, mtype)
        self.events = []

    def buf(self, name, nbytes, role='inout'):
        return self.c.buf(name, nbytes, role)

    def call(self, fname, args):
        st, ret, ev = self.c.run(fname, args)
        self.events = ev
        del self.c.m.events[:]
        return st, ret

    def size(self, fname, args=()):
        st, ret = self.call(fname, [self.mod] + list(args))
        if st != 'ok' or not is_int(ret):
            raise AnalysisBroken('%s%r -> %r %r' % (fname, tuple(args), st, ret))
        return ret

    @staticmethod
    def state(ptr):
        return dict(getattr(ptr.obj, 'vstore', {}))
