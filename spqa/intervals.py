"""spqa.intervals — E5: interval analysis of integer value DAGs (E4 expressions) with wrap detection.

An interval [lo, hi] is a set of *mathematical* integers; a b-bit value is in range when the interval fits the
unsigned range [0, 2^b) or (for code that computes with signed quantities) the signed range [-2^(b-1), 2^(b-1)).
Every add / sub / mul / shl whose exact result leaves both ranges is reported: that is an intermediate that wraps its
word for some operand of the declared layout.  Selects on a comparison of a value against a constant refine that value
in their branches (posmod, centred CRT lift).  Everything the domain does not model returns the full range (sound)."""
from .values import Sym, sym
from .vals import is_int, signed


class Finding:
    def __init__(self, kind, text, iv):
        self.kind = kind
        self.text = text
        self.iv = iv

    def __repr__(self):
        return '%s: %s -> [%d, %d]' % (self.kind, self.text, self.iv[0], self.iv[1])


class Intervals:
    def __init__(self, atom_range, fmt):
        self.atom_range = atom_range   # callable (name, off, size) -> (lo, hi)
        self.memo = {}
        self.findings = []
        self.fmt = fmt
        self.mask32_muls = []          # (x, lo, hi) for and(x, 2^32-1) operands of a multiply

    def full(self, bits):
        return (0, (1 << bits) - 1)

    def fits(self, iv, bits):
        lo, hi = iv
        return (0 <= lo and hi < (1 << bits)) or (-(1 << (bits - 1)) <= lo and hi < (1 << (bits - 1)))

    def norm(self, iv, bits, v, kind):
        if self.fits(iv, bits):
            return iv
        self.findings.append(Finding(kind, self.fmt(v)[:300], iv))
        return self.full(bits)

    def ev(self, v, env=None):
        if is_int(v):
            return (v, v)
        if not isinstance(v, Sym):
            return None
        key = (v, tuple(sorted((id(k), r) for k, r in env.items())) if env else None)
        r = self.memo.get(key)
        if r is not None:
            return r
        if env and v in env:
            r = env[v]
        else:
            r = self._ev(v, env)
        self.memo[key] = r
        return r

    def ev_all(self, vals):
        """evaluate a set of roots bottom-up without deep recursion (accumulator chains are 10^4 levels deep)"""
        order = []
        seen = set()
        for root in vals:
            if not isinstance(root, Sym) or root in seen:
                continue
            stack = [(root, iter([x for x in root.e[1:] if isinstance(x, Sym)]))]
            seen.add(root)
            while stack:
                v, it = stack[-1]
                adv = False
                for c in it:
                    if c not in seen:
                        seen.add(c)
                        stack.append((c, iter([x for x in c.e[1:] if isinstance(x, Sym)])))
                        adv = True
                        break
                if not adv:
                    order.append(v)
                    stack.pop()
        for v in order:
            self.ev(v)
        return [self.ev(v) if isinstance(v, Sym) else ((v, v) if is_int(v) else None) for v in vals]

    def _bits_of(self, v):
        e = v.e
        if e[0] in ('add', 'sub', 'mul', 'and', 'or', 'xor', 'shl', 'lshr', 'ashr', 'udiv', 'urem', 'sdiv', 'srem'):
            return e[1]
        if e[0] in ('zext', 'sext', 'trunc'):
            return e[2]
        if e[0] == 'in':
            return 8 * e[3]
        return 64

    def _ev(self, v, env):
        e = v.e
        op = e[0]
        if op == 'in':
            return self.atom_range(e[1], e[2], e[3])
        if op in ('add', 'sub', 'mul', 'shl', 'lshr', 'ashr', 'and', 'or', 'xor', 'udiv', 'urem', 'sdiv', 'srem'):
            bits = e[1]
            a, b = self.ev(e[2], env), self.ev(e[3], env)
            if a is None or b is None:
                return self.full(bits)
            M = 1 << bits
            if a[0] == a[1] and b[0] == b[1] and op in ('and', 'or', 'xor', 'urem', 'udiv', 'srem', 'sdiv', 'lshr', 'ashr'):
                # both operands are single values: the operation is evaluated exactly on the words
                x, y = a[0] % M, b[0] % M
                sx, sy = (x - M if x >= M >> 1 else x), (y - M if y >= M >> 1 else y)
                r = None
                if op == 'and':
                    r = x & y
                elif op == 'or':
                    r = x | y
                elif op == 'xor':
                    r = x ^ y
                elif op == 'urem' and y:
                    r = x % y
                elif op == 'udiv' and y:
                    r = x // y
                elif op == 'srem' and sy:
                    r = abs(sx) % abs(sy)
                    r = -r if sx < 0 else r
                elif op == 'sdiv' and sy:
                    r = abs(sx) // abs(sy)
                    r = -r if (sx < 0) != (sy < 0) else r
                elif op == 'lshr' and y < bits:
                    r = x >> y
                elif op == 'ashr' and y < bits:
                    r = sx >> y
                if r is not None:
                    return (r, r)
            if op in ('add', 'sub'):
                # t +- (c ? p : q): evaluated per branch under the refined environment (keeps the correlation between t and c)
                for x, y, flip in ((e[2], e[3], False), (e[3], e[2], True)):
                    if isinstance(y, Sym) and y.e[0] == 'sel' and not (flip and op == 'sub'):
                        envt, envf = self.refine(y.e[1], env)
                        if envt is not (env or {}) or envf is not (env or {}):
                            ra = self.ev(sym(op, bits, x, y.e[2]) if not flip else sym(op, bits, y.e[2], x), envt)
                            rb = self.ev(sym(op, bits, x, y.e[3]) if not flip else sym(op, bits, y.e[3], x), envf)
                            if ra is not None and rb is not None:
                                return (min(ra[0], rb[0]), max(ra[1], rb[1]))
            if op == 'add':
                # adding a constant >= 2^(bits-1) is the two's-complement spelling of a subtraction
                for x, y in ((a, b), (b, a)):
                    if y[0] == y[1] and y[0] >= (M >> 1) and x[0] >= 0:
                        k = M - y[0]
                        if x[0] - k >= -(M >> 1):
                            return (x[0] - k, x[1] - k)
                return self.norm((a[0] + b[0], a[1] + b[1]), bits, v, 'add-wraps')
            if op == 'sub':
                return self.norm((a[0] - b[1], a[1] - b[0]), bits, v, 'sub-wraps')
            if op == 'mul':
                cs = [a[0] * b[0], a[0] * b[1], a[1] * b[0], a[1] * b[1]]
                # split-multiplication rule: operands masked to 32 bits must fit 32 bits or have their high part used
                for x in (e[2], e[3]):
                    if isinstance(x, Sym) and x.e[0] == 'and' and x.e[1] == 64:
                        for p, q in ((x.e[2], x.e[3]), (x.e[3], x.e[2])):
                            if is_int(q) and q == 0xffffffff and isinstance(p, Sym):
                                pi = self.ev(p, env)
                                if pi is not None:
                                    self.mask32_muls.append((p, pi))
                return self.norm((min(cs), max(cs)), bits, v, 'mul-wraps')
            if op == 'shl':
                if b[0] == b[1] and 0 <= b[0] < bits:
                    return self.norm((a[0] << b[0], a[1] << b[0]), bits, v, 'shl-wraps')
                return self.full(bits)
            if op == 'lshr':
                if a[0] >= 0 and b[0] == b[1] and 0 <= b[0] < bits:
                    return (a[0] >> b[0], a[1] >> b[0])
                if a[0] >= 0 and b[0] >= 0:
                    return (0, a[1] >> min(b[0], bits - 1))
                return self.full(bits)
            if op == 'ashr':
                if b[0] == b[1] and 0 <= b[0] < bits and -(M >> 1) <= a[0] and a[1] < (M >> 1):
                    return (a[0] >> b[0], a[1] >> b[0])
                if b[0] == b[1] and 0 <= b[0] < bits and a[0] >= (M >> 1) and a[1] < M:
                    # words with the top bit set: the signed value is the word minus 2^bits
                    return ((a[0] - M) >> b[0], (a[1] - M) >> b[0])
                return (-(M >> 1), (M >> 1) - 1)
            if op == 'and':
                if a[0] >= 0 and b[0] >= 0:
                    hi = min(a[1], b[1])
                    # exact when masking with a low mask that the value already fits
                    for x, y in ((a, b), (b, a)):
                        if y[0] == y[1] and (y[0] & (y[0] + 1)) == 0 and x[1] <= y[0]:
                            return x
                    return (0, hi)
                for x, y in ((a, b), (b, a)):
                    if y[0] == y[1] and y[0] >= 0:
                        return (0, y[0])
                return self.full(bits)
            if op in ('or', 'xor'):
                if a[0] >= 0 and b[0] >= 0:
                    t = max(a[1], b[1]).bit_length()
                    return (max(a[0], b[0]) if op == 'or' else 0, (1 << t) - 1)
                return self.full(bits)
            if op == 'urem':
                if a[0] >= 0 and b[0] > 0:
                    if a[1] < b[0]:
                        return a
                    return (0, min(a[1], b[1] - 1))
                return self.full(bits)
            if op == 'udiv':
                if a[0] >= 0 and b[0] > 0:
                    return (a[0] // b[1], a[1] // b[0])
                return self.full(bits)
            if op == 'srem':
                if b[0] == b[1] and b[0] > 0:
                    q = b[0]
                    if a[0] >= 0 and a[1] < (M >> 1):
                        return (0, min(a[1], q - 1))
                    return (-(q - 1), q - 1)
                return (-(M >> 1), (M >> 1) - 1)
            if op == 'sdiv':
                return (-(M >> 1), (M >> 1) - 1)
        if op == 'zext':
            a = self.ev(e[3], env)
            if a is None or a[0] < 0:
                return self.full(e[1])
            return a
        if op == 'sext':
            a = self.ev(e[3], env)
            sb = e[1]
            if a is None:
                return (-(1 << (sb - 1)), (1 << (sb - 1)) - 1)
            if a[1] < (1 << (sb - 1)) and a[0] >= -(1 << (sb - 1)):
                return a
            return (-(1 << (sb - 1)), (1 << (sb - 1)) - 1)
        if op == 'trunc':
            a = self.ev(e[3], env)
            db = e[2]
            if a is not None and 0 <= a[0] and a[1] < (1 << db):
                return a
            return self.full(db)
        if op == 'sel':
            c, x, y = e[1], e[2], e[3]
            envt, envf = self.refine(c, env)
            a = self.ev(x, envt) if not is_int(x) else (x, x)
            b = self.ev(y, envf) if not is_int(y) else (y, y)
            if a is None or b is None:
                return self.full(64)
            return (min(a[0], b[0]), max(a[1], b[1]))
        if op == 'slice':
            a = self.ev(e[1], env)
            off, size = e[2], e[3]
            if a is not None and a[0] >= 0:
                if off == 0:
                    if a[1] < (1 << (8 * size)):
                        return a
                    return self.full(8 * size)
                return (0, min((1 << (8 * size)) - 1, a[1] >> (8 * off)))
            return self.full(8 * size)
        if op == 'part':
            eb, j, x = e[1], e[2], e[3]
            a = self.ev(x, env)
            if a is not None and a[0] >= 0:
                if j == 0:
                    return a if a[1] < (1 << eb) else self.full(eb)
                return (0, min((1 << eb) - 1, a[1] >> (eb * j)))
            return self.full(eb)
        if op in ('catl', 'cat'):
            parts = e[1:]
            lo = hi = 0
            sh = 0
            for p in parts:
                a = self.ev(p, env) if not is_int(p) else (p, p)
                w = 32 if op == 'catl' else (8 * p.e[3] if isinstance(p, Sym) and p.e[0] in ('in', 'slice') else 32)
                if a is None or a[0] < 0:
                    a = (0, (1 << w) - 1)
                lo += a[0] << sh
                hi += min(a[1], (1 << w) - 1) << sh
                sh += w
            return (lo, hi)
        if op in ('icmp', 'fcmp'):
            return (0, 1)
        if op == 'ctpop':
            return (0, 64)
        return None

    def refine(self, c, env):
        """environments for the true / false side of a select on icmp(pred, X, const)"""
        env = env or {}
        if not (isinstance(c, Sym) and c.e[0] == 'icmp'):
            return env, env
        pred, bits, x, y = c.e[1], c.e[2], c.e[3], c.e[4]
        if is_int(x) and isinstance(y, Sym):
            from .loops import SWAP
            pred, x, y = SWAP[pred], y, x
        if not (isinstance(x, Sym) and is_int(y)):
            return env, env
        a = self.ev(x, env)
        if a is None:
            return env, env
        k = signed(y, bits) if pred.startswith('s') else y
        lo, hi = a
        if pred.startswith('u') and lo < 0:
            return env, env
        t = f = None
        if pred in ('slt', 'ult'):
            t, f = (lo, min(hi, k - 1)), (max(lo, k), hi)
        elif pred in ('sle', 'ule'):
            t, f = (lo, min(hi, k)), (max(lo, k + 1), hi)
        elif pred in ('sgt', 'ugt'):
            t, f = (max(lo, k + 1), hi), (lo, min(hi, k))
        elif pred in ('sge', 'uge'):
            t, f = (max(lo, k), hi), (lo, min(hi, k - 1))
        else:
            return env, env
        et, ef = dict(env), dict(env)
        if t[0] <= t[1]:
            et[x] = t
        if f[0] <= f[1]:
            ef[x] = f
        return et, ef
