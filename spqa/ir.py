"""spqa.ir — loader for the per-unit JSON dumps; symbol table across units; alias resolution."""
import json
import os
from collections import defaultdict

from .build import AnalysisBroken, build


class Instr:
    __slots__ = ('id', 'op', 'ty', 'ops', 'loc', 'd', 'block', 'fn')

    def __init__(self, d, block, fn):
        self.d = d
        self.id = d['id']
        self.op = d['op']
        self.ty = d['ty']
        self.ops = d.get('ops', [])
        self.loc = d.get('loc')
        self.block = block
        self.fn = fn

    def get(self, k, default=None):
        return self.d.get(k, default)

    def __getitem__(self, k):
        return self.d[k]

    def __repr__(self):
        return '<%s %%%d %s @%s>' % (self.fn.name, self.id, self.op, self.loc)


class Block:
    __slots__ = ('id', 'idom', 'preds', 'succs', 'instrs', 'fn', 'loop', 'reachable')

    def __init__(self, d, fn):
        self.id = d['id']
        self.idom = d['idom']
        self.preds = d['preds']
        self.succs = d['succs']
        self.reachable = d.get('reachable', True)
        self.fn = fn
        self.loop = None  # innermost loop id
        self.instrs = [Instr(i, self, fn) for i in d['instrs']]

    @property
    def term(self):
        return self.instrs[-1]


class Loop:
    __slots__ = ('id', 'parent', 'depth', 'header', 'preheader', 'latches', 'blocks', 'exits', 'children')

    def __init__(self, d):
        self.id = d['id']
        self.parent = d['parent']
        self.depth = d['depth']
        self.header = d['header']
        self.preheader = d['preheader']
        self.latches = d['latches']
        self.blocks = set(d['blocks'])
        self.exits = [tuple(e) for e in d['exits']]
        self.children = []


class Function:
    def __init__(self, d, unit):
        self.d = d
        self.name = d['name']
        self.unit = unit
        self.internal = d['internal']
        self.args = d['args']
        self.ret = d['ret']
        self.loc = d.get('loc')
        self.blocks = [Block(b, self) for b in d['blocks']]
        self.loops = [Loop(l) for l in d['loops']]
        for l in self.loops:
            if l.parent is not None:
                self.loops[l.parent].children.append(l.id)
        # innermost loop per block
        for l in sorted(self.loops, key=lambda l: l.depth):
            for b in l.blocks:
                self.blocks[b].loop = l.id
        self.instrs = {}
        for b in self.blocks:
            for i in b.instrs:
                self.instrs[i.id] = i

    @property
    def key(self):
        return (self.unit, self.name) if self.internal else self.name

    def all_instrs(self):
        for b in self.blocks:
            for i in b.instrs:
                yield i

    def dominates(self, a, b):
        """block a dominates block b"""
        while b is not None:
            if a == b:
                return True
            b = self.blocks[b].idom
        return False

    def __repr__(self):
        return '<fn %s (%s)>' % (self.name, self.unit)


class Library:
    def __init__(self, cachedir):
        self.dir = cachedir
        self.meta = json.load(open(os.path.join(cachedir, 'meta.json')))
        self.units = {}
        self.functions = {}      # key -> Function  (key = name or (unit,name) for internal)
        self.by_name = defaultdict(list)
        self.globals = {}        # (unit|None, name) -> dict
        self.aliases = {}
        self.decls = defaultdict(dict)
        self.structs = {}
        for u in self.meta['units']:
            p = os.path.join(cachedir, u.replace('/', '__') + '.json')
            d = json.load(open(p))
            self.units[u] = d
            for a, t in d['aliases'].items():
                self.aliases[a] = t
            for fd in d['functions']:
                f = Function(fd, u)
                if f.key in self.functions:
                    raise AnalysisBroken('duplicate definition of %s (%s and %s)' % (f.name, u, self.functions[f.key].unit))
                self.functions[f.key] = f
                self.by_name[f.name].append(f)
            for g in d['globals']:
                if g['decl']:
                    continue
                k = (u, g['name']) if g['internal'] else (None, g['name'])
                g = dict(g)
                g['unit'] = u
                self.globals[k] = g
            for dc in d['decls']:
                self.decls[u][dc['name']] = dc
            for s, sd in d['structs'].items():
                self.structs.setdefault(s, sd)

    def resolve(self, unit, name):
        """function called `name` from `unit` -> Function or None (external)"""
        name = self.aliases.get(name, name)
        f = self.functions.get((unit, name))
        if f is not None:
            return f
        return self.functions.get(name)

    def resolve_global(self, unit, name):
        g = self.globals.get((unit, name))
        if g is not None:
            return g
        return self.globals.get((None, name))

    def fn(self, name):
        """unique function by name (exported or unique internal)"""
        name = self.aliases.get(name, name)
        l = self.by_name.get(name, [])
        if len(l) == 1:
            return l[0]
        ext = [f for f in l if not f.internal]
        if len(ext) == 1:
            return ext[0]
        if not l:
            return None
        raise AnalysisBroken('ambiguous function name %s: %s' % (name, [f.unit for f in l]))

    def exported(self):
        return [f for f in self.functions.values() if not f.internal]


_lib = None


def load(repo=None):
    global _lib
    if _lib is None:
        d = build() if repo is None else build(repo)
        _lib = Library(d)
    return _lib
