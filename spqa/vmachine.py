"""spqa.vmachine — ValueMachine: the region engine in fully ordered mode with symbolic data values (E4)."""
from .machine import Machine, NonAff
from .vals import (Aff, FnPtr, NeedEnum, Obj, Opaque, OPAQUE, UNINIT, Ptr, Unsupported, is_int, mask, signed)
from .values import Sym, Vec, is_data, sym

FP_BIN = {'fadd', 'fsub', 'fmul', 'fdiv', 'frem'}


class ValueMachine(Machine):
    def __init__(self, lib, cpu='accel', trusted=None, loop_cap=1 << 20):
        Machine.__init__(self, lib, cpu=cpu, expand=True, trusted=trusted, loop_cap=loop_cap)
        self.unk = 0

    # ---- data memory --------------------------------------------------------------------------------------
    def _is_data_loc(self, obj, off, size):
        if obj.kind == 'cpu':
            return False
        if obj.fields is None:
            return True
        if not self._in_window(obj, off, size):
            return True
        return False

    def _vstore(self, obj):
        vs = getattr(obj, 'vstore', None)
        if vs is None:
            vs = {}
            obj.vstore = vs
        return vs

    def _overlaps(self, obj, vs, off, size):
        """entries of the store map overlapping [off, off+size): probes a window bounded by the largest entry"""
        w = getattr(obj, 'vmax', 8)
        if len(vs) <= 2 * (w + size):
            return [(o2, s2, v2) for o2, (s2, v2) in vs.items() if o2 < off + size and off < o2 + s2]
        out = []
        for c in range(off - w + 1, off + size):
            e = vs.get(c)
            if e is not None and c + e[0] > off:
                out.append((c, e[0], e[1]))
        return out

    def vload_scalar(self, obj, off, size):
        vs = self._vstore(obj)
        hit = vs.get(off)
        if hit is not None and hit[0] == size:
            return hit[1]
        # overlapping entries
        over = self._overlaps(obj, vs, off, size)
        if not over:
            # initial content; a location inside a zero-filled object reads as zero
            return sym('in', obj.name, off, size)
        over.sort()
        if len(over) == 1 and over[0][0] <= off and off + size <= over[0][0] + over[0][1]:
            o2, s2, v2 = over[0]
            if is_int(v2) and v2 == 0:
                return 0
            if isinstance(v2, float) and v2 == 0.0:
                return 0
            return sym('slice', v2, off - o2, size)
        parts = []
        cur = off
        for o2, s2, v2 in over:
            if o2 > cur:
                parts.append(sym('in', obj.name, cur, o2 - cur))
            lo = max(o2, off)
            hi = min(o2 + s2, off + size)
            parts.append(v2 if (lo == o2 and hi == o2 + s2) else sym('slice', v2, lo - o2, hi - lo))
            cur = hi
        if cur < off + size:
            parts.append(sym('in', obj.name, cur, off + size - cur))
        if all((is_int(p) and p == 0) or (isinstance(p, float) and p == 0.0) for p in parts):
            return 0
        return sym('cat', *parts)

    def vstore_scalar(self, obj, off, size, val):
        one = getattr(obj, 'onestep', None)
        if one is not None and size == 8 and isinstance(val, (Sym, float, int)) and not isinstance(val, bool):
            # one-step mode (E7): the stored expression is recorded as the definition of a new generation of this word and
            # the word now reads as a fresh atom, so every definition is in terms of the previous generation only
            g = one['gen'].get(off, 0) + 1
            one['gen'][off] = g
            one['defs'][(off, g)] = val
            val = sym('in', '%s#%d' % (obj.name, g), off, 8)
        vs = self._vstore(obj)
        hit = vs.get(off)
        if hit is not None and hit[0] == size and getattr(obj, 'vmax', 8) <= size:
            vs[off] = (size, val)
            return
        for (o2, s2, v2) in self._overlaps(obj, vs, off, size):
            vs.pop(o2)
            if o2 < off:
                vs[o2] = (off - o2, sym('slice', v2, 0, off - o2) if not (is_int(v2) and v2 == 0) else 0)
            if o2 + s2 > off + size:
                vs[off + size] = (o2 + s2 - off - size,
                                  sym('slice', v2, off + size - o2, o2 + s2 - off - size) if not (is_int(v2) and v2 == 0) else 0)
        if size > getattr(obj, 'vmax', 8):
            obj.vmax = size
        vs[off] = (size, val)

    def load(self, ptr, ty, loc, align=0):
        if isinstance(ptr, Ptr) and is_int(ptr.off) and ty.get('k') == 'vec' and ptr.obj.fields is not None:
            w = getattr(ptr.obj, 'window', None)
            size = ty.get('bytes', 8)
            if w is not None and ptr.off < w < ptr.off + size:
                # a vector access across the end of the tracked header window: lane by lane (each lane is on one side)
                n = ty['lanes']
                et = ty['elt']
                es = et.get('bits', 64) // 8
                ety = dict(et, bytes=es)
                lanes = [self.load(Ptr(ptr.obj, ptr.off + j * es, ptr.via, ptr.slack), ety, loc, 0) for j in range(n)]
                return Vec(lanes, et.get('bits', 64), et.get('k') == 'fp')
        if isinstance(ptr, Ptr) and is_int(ptr.off):
            size = ty.get('bytes', 8)
            if self._is_data_loc(ptr.obj, ptr.off, size):
                self.emit('R', ptr, size, loc, align)
                off = signed(ptr.off, 64)
                if ty.get('k') == 'vec':
                    n = ty['lanes']
                    eb = ty['elt'].get('bits', 64)
                    es = eb // 8
                    return Vec([self.vload_scalar(ptr.obj, off + j * es, es) for j in range(n)], eb, ty['elt'].get('k') == 'fp')
                return self.vload_scalar(ptr.obj, off, size)
        if ty.get('k') == 'vec' and isinstance(ptr, Ptr) and is_int(ptr.off) and ptr.obj.fields is not None:
            n = ty['lanes']
            eb = ty['elt'].get('bits', 64)
            es = eb // 8
            lanes = []
            for j in range(n):
                f = ptr.obj.fields.get(ptr.off + j * es)
                if f is not None and f[0] == es:
                    lanes.append(f[1])
                elif ptr.obj.zeroed and not ptr.obj.smashed:
                    lanes.append(0)
                else:
                    lanes.append(OPAQUE)
            self.emit('R', ptr, ty.get('bytes', 8), loc, align)
            return Vec(lanes, eb, ty['elt'].get('k') == 'fp')
        v = Machine.load(self, ptr, ty, loc, align)
        return v

    def store(self, ptr, val, ty, loc, align=0):
        if isinstance(ptr, Ptr) and is_int(ptr.off):
            size = ty.get('bytes', 8)
            if self._is_data_loc(ptr.obj, ptr.off, size):
                zero = (is_int(val) and val == 0) or (isinstance(val, float) and val == 0.0)
                self.emit('W', ptr, size, loc, align, val='zero' if zero else None)
                off = signed(ptr.off, 64)
                if isinstance(val, Vec):
                    es = val.ebits // 8
                    for j, l in enumerate(val.lanes):
                        self.vstore_scalar(ptr.obj, off + j * es, es, l)
                elif ty.get('k') == 'vec':
                    n = ty['lanes']
                    es = ty['elt'].get('bits', 64) // 8
                    for j in range(n):
                        self.unk += 1
                        self.vstore_scalar(ptr.obj, off + j * es, es, sym('unk', self.unk))
                else:
                    if isinstance(val, (Opaque, NonAff)) or val is None:
                        self.unk += 1
                        val = sym('unk', self.unk)
                    elif isinstance(val, (Ptr, FnPtr, Aff)):
                        self.unk += 1
                        val = sym('unk', self.unk)
                    self.vstore_scalar(ptr.obj, off, size, val)
                return
        if isinstance(val, (Sym, Vec)) or ty.get('k') == 'vec':
            # symbolic data kept in a tracked object (local array, spilled vector)
            if isinstance(ptr, Ptr) and is_int(ptr.off) and ptr.obj.fields is not None:
                size = ty.get('bytes', 8)
                self.emit('W', ptr, size, loc, align)
                obj, off = ptr.obj, ptr.off
                for o2 in [o2 for o2, (sz2, _) in obj.fields.items() if o2 < off + size and off < o2 + sz2]:
                    del obj.fields[o2]
                if isinstance(val, Vec):
                    es = val.ebits // 8
                    for j, l in enumerate(val.lanes):
                        obj.fields[off + j * es] = (es, l)
                else:
                    obj.fields[off] = (size, val if isinstance(val, Sym) else OPAQUE)
                return
            val = OPAQUE
        Machine.store(self, ptr, val, ty, loc, align)

    def memset(self, ptr, byte, n, loc):
        if isinstance(ptr, Ptr) and is_int(ptr.off) and is_int(n) and n <= (1 << 22) and self._is_data_loc(ptr.obj, ptr.off, max(n, 1)):
            if n:
                self.emit('W', ptr, n, loc, val='zero' if (is_int(byte) and byte == 0) else None)
                off = signed(ptr.off, 64)
                if is_int(byte) and byte == 0:
                    o = off
                    while o < off + n:
                        s = min(8, off + n - o)
                        self.vstore_scalar(ptr.obj, o, s, 0)
                        o += s
                else:
                    self.unk += 1
                    self.vstore_scalar(ptr.obj, off, n, sym('unk', self.unk))
            return
        Machine.memset(self, ptr, byte, n, loc)

    def memcpy(self, dst, src, n, loc):
        if (isinstance(dst, Ptr) and isinstance(src, Ptr) and is_int(dst.off) and is_int(src.off) and is_int(n) and n <= (1 << 22)
                and self._is_data_loc(dst.obj, dst.off, max(n, 1))):
            if n == 0:
                return
            self.emit('R', src, n, loc, note='memcpy')
            self.emit('W', dst, n, loc, note='memcpy')
            so, do = signed(src.off, 64), signed(dst.off, 64)
            if self._is_data_loc(src.obj, src.off, n):
                vals = []
                o = 0
                while o < n:
                    s = min(8, n - o)
                    vals.append((o, s, self.vload_scalar(src.obj, so + o, s)))
                    o += s
                for o, s, v in vals:
                    self.vstore_scalar(dst.obj, do + o, s, v)
            else:
                self.unk += 1
                self.vstore_scalar(dst.obj, do, n, sym('unk', self.unk))
            return
        Machine.memcpy(self, dst, src, n, loc)

    # ---- references to vector constants ----------------------------------------------------------------------
    def ref(self, fr, r):
        k = r['k']
        if k == 'z' and r['ty'].get('k') == 'vec':
            t = r['ty']
            fp = t['elt'].get('k') == 'fp'
            return Vec([0.0 if fp else 0] * t['lanes'], t['elt'].get('bits', 64), fp)
        if k == 'cv' and r['ty'].get('k') == 'vec':
            t = r['ty']
            return Vec([Machine.ref(self, fr, e) for e in r['elems']], t['elt'].get('bits', 64), t['elt'].get('k') == 'fp')
        return Machine.ref(self, fr, r)

    # ---- scalar data arithmetic --------------------------------------------------------------------------------
    def binop(self, op, a, b, bits, i):
        if isinstance(a, Sym) or isinstance(b, Sym):
            if isinstance(a, (Ptr, FnPtr)) or isinstance(b, (Ptr, FnPtr)):
                return OPAQUE
            if isinstance(a, (Opaque, NonAff, Aff)) or isinstance(b, (Opaque, NonAff, Aff)) or a is None or b is None:
                return OPAQUE
            return self.sbin(op, a, b, bits)
        return Machine.binop(self, op, a, b, bits, i)

    def sbin(self, op, a, b, bits):
        m = mask(bits)
        if is_int(a):
            a &= m
        if is_int(b):
            b &= m
        # light local simplifications keep expressions small; the normal form does the rest
        if op in ('add', 'or', 'xor') and is_int(b) and b == 0:
            return a
        if op in ('add', 'or', 'xor') and is_int(a) and a == 0:
            return b
        if op in ('sub', 'shl', 'lshr', 'ashr') and is_int(b) and b == 0:
            return a
        if op == 'mul' and ((is_int(a) and a == 0) or (is_int(b) and b == 0)):
            return 0
        if op == 'mul' and is_int(b) and b == 1:
            return a
        if op == 'mul' and is_int(a) and a == 1:
            return b
        if op == 'and' and ((is_int(a) and a == 0) or (is_int(b) and b == 0)):
            return 0
        if op == 'and' and is_int(b) and b == m:
            return a
        if op == 'and' and is_int(a) and a == m:
            return b
        return sym(op, bits, a, b)

    def fbin(self, op, a, b):
        if isinstance(a, float) and isinstance(b, float):
            try:
                return {'fadd': a + b, 'fsub': a - b, 'fmul': a * b}.get(op, None) if op != 'fdiv' else (a / b if b else OPAQUE)
            except OverflowError:
                return OPAQUE
        if is_int(a):
            a = float(a) if a == 0 else a
        if is_int(b):
            b = float(b) if b == 0 else b
        ok = lambda x: isinstance(x, (Sym, float))
        if not (ok(a) and ok(b)):
            return OPAQUE
        return sym(op, a, b)

    def icmp(self, pred, a, b, bits, i):
        if isinstance(a, Sym) or isinstance(b, Sym):
            if isinstance(a, (Sym, int)) and isinstance(b, (Sym, int)):
                return sym('icmp', pred, bits, a, b)
            return OPAQUE
        return Machine.icmp(self, pred, a, b, bits, i)

    def cast(self, op, v, i):
        if isinstance(v, Vec):
            return self.vcast(op, v, i)
        if isinstance(v, Sym):
            sb = i['srcty'].get('bits')
            db = i.ty.get('bits')
            if i.ty.get('k') == 'vec':
                return self.scalar_to_vec(v, i)
            if op in ('bitcast', 'ptrtoint', 'inttoptr'):
                return v
            if op in ('sitofp', 'uitofp'):
                return sym(op, sb, v)
            if op in ('fptosi', 'fptoui'):
                return sym(op, db, v)
            if op in ('fpext',):
                return v
            if op == 'fptrunc':
                return sym('fptrunc', db, v)
            return sym(op, sb, db, v)
        if i.ty.get('k') == 'vec' and not isinstance(v, Vec) and op == 'bitcast' and is_int(v):
            return self.scalar_to_vec(v, i)
        return Machine.cast(self, op, v, i)

    def scalar_to_vec(self, v, i):
        t = i.ty
        n, eb = t['lanes'], t['elt'].get('bits', 64)
        fp = t['elt'].get('k') == 'fp'
        if is_int(v):
            return Vec([(v >> (eb * j)) & mask(eb) for j in range(n)], eb, fp)
        return Vec([sym('slice', v, j * eb // 8, eb // 8) for j in range(n)], eb, fp)

    # ---- vectors -----------------------------------------------------------------------------------------------
    def vcast(self, op, v, i):
        t = i.ty
        if t.get('k') != 'vec':
            # vector -> scalar bitcast (e.g. <2 x i64> -> i128)
            if op == 'bitcast' and all(is_int(l) for l in v.lanes):
                r = 0
                for j, l in enumerate(v.lanes):
                    r |= (l & mask(v.ebits)) << (j * v.ebits)
                return r
            return sym('catv', *v.lanes)
        n, eb = t['lanes'], t['elt'].get('bits', 64)
        fp = t['elt'].get('k') == 'fp'
        if op == 'bitcast':
            if n == len(v.lanes):
                import struct
                out = []
                for l in v.lanes:
                    if isinstance(l, float) and not fp and eb == 64:
                        l = struct.unpack('<Q', struct.pack('<d', l))[0]
                    elif is_int(l) and fp and eb == 64 and not v.fp:
                        l = struct.unpack('<d', struct.pack('<Q', l & mask(64)))[0]
                    out.append(l)
                return Vec(out, eb, fp)
            if n > len(v.lanes):
                k = n // len(v.lanes)
                out = []
                for l in v.lanes:
                    for j in range(k):
                        if is_int(l):
                            out.append((l >> (eb * j)) & mask(eb))
                        elif isinstance(l, float):
                            import struct
                            q = struct.unpack('<Q', struct.pack('<d', l))[0]
                            out.append((q >> (eb * j)) & mask(eb))
                        elif isinstance(l, Sym) and l.e[0] == 'catl' and len(l.e) - 1 == k:
                            out.append(l.e[1 + j])
                        else:
                            out.append(sym('part', eb, j, l) if isinstance(l, Sym) else OPAQUE)
                return Vec(out, eb, fp)
            k = len(v.lanes) // n
            out = []
            for j in range(n):
                parts = v.lanes[j * k:(j + 1) * k]
                if all(is_int(p) for p in parts):
                    r = 0
                    for q, p in enumerate(parts):
                        r |= (p & mask(v.ebits)) << (q * v.ebits)
                    out.append(r)
                elif all(isinstance(p, Sym) and p.e[0] == 'part' and p.e[1] == v.ebits and p.e[2] == q and p.e[3] is parts[0].e[3]
                         for q, p in enumerate(parts)):
                    out.append(parts[0].e[3])
                elif all(isinstance(p, (Sym, int)) and not isinstance(p, bool) for p in parts):
                    out.append(sym('catl', *parts))
                else:
                    out.append(OPAQUE)
            return Vec(out, eb, fp)
        sb = v.ebits
        if op in ('zext', 'sext', 'trunc'):
            out = []
            for l in v.lanes:
                if is_int(l):
                    out.append((signed(l, sb) if op == 'sext' else l) & mask(eb))
                elif isinstance(l, Sym):
                    out.append(sym(op, sb, eb, l))
                else:
                    out.append(OPAQUE)
            return Vec(out, eb, fp)
        if op in ('sitofp', 'uitofp'):
            return Vec([float(signed(l, sb) if op == 'sitofp' else l) if is_int(l) else (sym(op, sb, l) if isinstance(l, Sym) else OPAQUE)
                        for l in v.lanes], eb, True)
        if op in ('fptosi', 'fptoui'):
            return Vec([sym(op, eb, l) if isinstance(l, Sym) else OPAQUE for l in v.lanes], eb, False)
        return Vec([OPAQUE] * n, eb, fp)

    def lanes_of(self, v, n):
        if isinstance(v, Vec):
            return v.lanes
        return [UNINIT if v is UNINIT else OPAQUE] * n

    def step(self, fr, i, L, sym_key):
        op = i.op
        t = i.ty
        isvec = t.get('k') == 'vec'
        if op in FP_BIN or op == 'fneg':
            vs = [self.ref(fr, o) for o in i.ops]
            if isvec:
                n = t['lanes']
                ls = [self.lanes_of(v, n) for v in vs]
                if op == 'fneg':
                    out = [self.fneg(a) for a in ls[0]]
                else:
                    out = [self.fbin(op, a, b) for a, b in zip(ls[0], ls[1])]
                fr.env[i.id] = Vec(out, t['elt'].get('bits', 64), True)
                return None
            if any(isinstance(v, Sym) for v in vs):
                fr.env[i.id] = self.fneg(vs[0]) if op == 'fneg' else self.fbin(op, vs[0], vs[1])
                return None
            return Machine.step(self, fr, i, L, sym_key)
        if isvec and op in ('add', 'sub', 'mul', 'and', 'or', 'xor', 'shl', 'lshr', 'ashr'):
            n = t['lanes']
            eb = t['elt'].get('bits', 64)
            a, b = self.lanes_of(self.ref(fr, i.ops[0]), n), self.lanes_of(self.ref(fr, i.ops[1]), n)
            out = []
            for x, y in zip(a, b):
                if is_int(x) and is_int(y):
                    out.append(Machine.binop(self, op, x, y, eb, i))
                elif isinstance(x, (Sym, int)) and isinstance(y, (Sym, int)) and not isinstance(x, bool):
                    out.append(self.sbin(op, x, y, eb))
                else:
                    out.append(OPAQUE)
            fr.env[i.id] = Vec(out, eb, False)
            return None
        if op == 'shufflevector':
            a, b = self.ref(fr, i.ops[0]), self.ref(fr, i.ops[1])
            msk = i['mask']
            na = len(a.lanes) if isinstance(a, Vec) else (len(b.lanes) if isinstance(b, Vec) else len(msk))
            la, lb = self.lanes_of(a, na), self.lanes_of(b, na)
            allv = la + lb
            fr.env[i.id] = Vec([UNINIT if m < 0 else allv[m] for m in msk], t['elt'].get('bits', 64), t['elt'].get('k') == 'fp')
            return None
        if op == 'insertelement':
            v, x, idx = self.ref(fr, i.ops[0]), self.ref(fr, i.ops[1]), self.ref(fr, i.ops[2])
            n = t['lanes']
            l = list(self.lanes_of(v, n))
            if is_int(idx) and idx < n:
                l[idx] = x if not isinstance(x, (Ptr, FnPtr, Aff, NonAff)) else OPAQUE
            else:
                l = [OPAQUE] * n
            fr.env[i.id] = Vec(l, t['elt'].get('bits', 64), t['elt'].get('k') == 'fp')
            return None
        if op == 'extractelement':
            v, idx = self.ref(fr, i.ops[0]), self.ref(fr, i.ops[1])
            if isinstance(v, Vec) and is_int(idx) and idx < len(v.lanes):
                fr.env[i.id] = v.lanes[idx]
            else:
                fr.env[i.id] = OPAQUE
            return None
        if op == 'select':
            c = self.ref(fr, i.ops[0])
            a, b = self.ref(fr, i.ops[1]), self.ref(fr, i.ops[2])
            if isinstance(c, Vec) or (isvec and isinstance(c, Sym)):
                n = t['lanes']
                cl = c.lanes if isinstance(c, Vec) else [c] * n
                la, lb = self.lanes_of(a, n), self.lanes_of(b, n)
                out = []
                for cc, x, y in zip(cl, la, lb):
                    if is_int(cc):
                        out.append(x if cc & 1 else y)
                    elif isinstance(cc, Sym):
                        out.append(sym('sel', cc, x, y) if all(isinstance(z, (Sym, int, float)) for z in (x, y)) else OPAQUE)
                    else:
                        out.append(OPAQUE)
                fr.env[i.id] = Vec(out, t['elt'].get('bits', 64), t['elt'].get('k') == 'fp')
                return None
            if isinstance(c, Sym):
                ok = lambda z: isinstance(z, (Sym, int, float)) and not isinstance(z, bool)
                fr.env[i.id] = sym('sel', c, a, b) if ok(a) and ok(b) else OPAQUE
                return None
            return Machine.step(self, fr, i, L, sym_key)
        if op in ('icmp', 'fcmp') and (isvec or any(isinstance(self._peek(fr, o), Vec) for o in i.ops)):
            a, b = self.ref(fr, i.ops[0]), self.ref(fr, i.ops[1])
            n = t.get('lanes', 1)
            la, lb = self.lanes_of(a, n), self.lanes_of(b, n)
            out = []
            for x, y in zip(la, lb):
                if isinstance(x, (Sym, int, float)) and isinstance(y, (Sym, int, float)):
                    out.append(sym(op, i['pred'], x, y))
                else:
                    out.append(OPAQUE)
            fr.env[i.id] = Vec(out, 1, False)
            return None
        if op == 'fcmp':
            a, b = self.ref(fr, i.ops[0]), self.ref(fr, i.ops[1])
            if isinstance(a, Sym) or isinstance(b, Sym):
                fr.env[i.id] = sym('fcmp', i['pred'], a, b) if all(isinstance(z, (Sym, float)) for z in (a, b)) else OPAQUE
                return None
        return Machine.step(self, fr, i, L, sym_key)

    def _peek(self, fr, r):
        if r.get('k') == 'i':
            return fr.env.get(r['v'])
        if r.get('k') in ('cv', 'z'):
            return Vec([], 0, False)
        return None

    def fneg(self, a):
        if isinstance(a, float):
            return -a
        if isinstance(a, Sym):
            return sym('fneg', a)
        if is_int(a) and a == 0:
            return -0.0
        return OPAQUE

    def fma(self, a, b, c):
        if all(isinstance(x, float) for x in (a, b, c)):
            return a * b + c
        if all(isinstance(x, (Sym, float)) or (is_int(x) and x == 0) for x in (a, b, c)):
            f = lambda x: 0.0 if is_int(x) else x
            return sym('fma', f(a), f(b), f(c))
        return OPAQUE

    def intrinsic(self, name, args, i):
        t = i.ty
        if name.startswith('llvm.fma') or name.startswith('llvm.fmuladd'):
            if t.get('k') == 'vec':
                n = t['lanes']
                ls = [self.lanes_of(a, n) for a in args]
                return Vec([self.fma(a, b, c) for a, b, c in zip(*ls)], t['elt'].get('bits', 64), True)
            if any(isinstance(a, Sym) for a in args):
                return self.fma(*args)
            return Machine.intrinsic(self, name, args, i)
        if 'ptestz' in name:
            # ZF of (a AND b): 1 when every lane of a & b is zero
            n = 4 if '256' in name else 2
            la, lb = self.lanes_of(args[0], n), self.lanes_of(args[1], n)
            lanes = []
            for x, y in zip(la, lb):
                if x is y:
                    lanes.append(x)
                elif is_int(x) and is_int(y):
                    lanes.append(x & y)
                elif isinstance(x, (Sym, int)) and isinstance(y, (Sym, int)):
                    lanes.append(sym('and', 64, x, y))
                else:
                    return Machine.intrinsic(self, name, args, i)
            if all(is_int(x) for x in lanes):
                return 1 if all(x == 0 for x in lanes) else 0
            return sym('allzero', *lanes)
        if 'vfmaddsub' in name:
            n = t['lanes']
            ls = [self.lanes_of(a, n) for a in args[:3]]
            out = []
            for j, (a, b, c) in enumerate(zip(*ls)):
                out.append(self.fma(a, b, self.fneg(c)) if j % 2 == 0 else self.fma(a, b, c))
            return Vec(out, 64, True)
        if 'addsub.pd' in name:
            n = t['lanes']
            la, lb = self.lanes_of(args[0], n), self.lanes_of(args[1], n)
            return Vec([self.fbin('fsub' if j % 2 == 0 else 'fadd', a, b) for j, (a, b) in enumerate(zip(la, lb))], 64, True)
        if name.startswith('llvm.x86.avx2.psrli.q') or name.startswith('llvm.x86.avx2.pslli.q'):
            n = t['lanes']
            la = self.lanes_of(args[0], n)
            sh = args[1]
            op = 'lshr' if 'psrli' in name else 'shl'
            out = []
            for x in la:
                if is_int(x) and is_int(sh):
                    out.append(Machine.binop(self, op, x, sh, 64, i))
                elif isinstance(x, Sym) and is_int(sh):
                    out.append(self.sbin(op, x, sh, 64) if sh < 64 else 0)
                else:
                    out.append(OPAQUE)
            return Vec(out, 64, False)
        if 'psllv.q' in name or 'psrlv.q' in name:
            n = t['lanes']
            la, lb = self.lanes_of(args[0], n), self.lanes_of(args[1], n)
            op = 'lshr' if 'psrlv' in name else 'shl'
            out = []
            for x, y in zip(la, lb):
                if is_int(x) and is_int(y):
                    out.append(Machine.binop(self, op, x, y, 64, i) if y < 64 else 0)
                elif isinstance(x, (Sym, int)) and isinstance(y, (Sym, int)):
                    out.append(self.sbin(op, x, y, 64))
                else:
                    out.append(OPAQUE)
            return Vec(out, 64, False)
        for m in ('rint', 'ceil', 'floor', 'fabs', 'sqrt'):
            if name == 'llvm.%s.f64' % m and isinstance(args[0], Sym):
                return sym(m, args[0])
        if name.startswith('llvm.ctpop') and isinstance(args[0], Sym):
            return sym('ctpop', args[0])
        if t.get('k') == 'vec' and name.startswith('llvm.x86.'):
            return Vec([OPAQUE] * t['lanes'], t['elt'].get('bits', 64), t['elt'].get('k') == 'fp')
        return Machine.intrinsic(self, name, args, i)

    def call_external(self, name, args, i, fr):
        from .machine import ASM_MODELS
        if name in ASM_MODELS and all(isinstance(a, Ptr) and is_int(a.off) for a in args):
            f64 = {'k': 'fp', 'bits': 64, 'bytes': 8, 's': 'double'}
            # assembly kernel: its semantics are lifted from the .s text (spqa.asmsem); the writes are buffered so that a unit
            # outside the instruction catalogue falls back to the uninterpreted model below without partial effects
            from . import asmsem
            prog = asmsem.program(self.lib, name) if getattr(self, 'lift_asm', True) else None
            if prog is not None:
                pending = []
                try:
                    asmsem.execute(
                        prog,
                        lambda ai, off: (_ for _ in ()).throw(asmsem.NotLifted('load after store')) if any(
                            args[a2].obj is args[ai].obj and args[a2].off + o2 == args[ai].off + off for a2, o2, _ in pending)
                        else self.load(Ptr(args[ai].obj, args[ai].off + off, args[ai].via, args[ai].slack), f64, i.loc),
                        lambda ai, off, v: pending.append((ai, off, v)))
                except (asmsem.NotLifted, IndexError, KeyError):
                    pending = None
                if pending is not None:
                    for ai, off, v in pending:
                        self.store(Ptr(args[ai].obj, args[ai].off + off, args[ai].via, args[ai].slack), v, f64, i.loc)
                    return None
            # arithmetic not modelled: every value written is an uninterpreted function of everything read
            reads = []
            for (ai, kind, off, size) in ASM_MODELS[name]:
                p = args[ai]
                if kind == 'R':
                    for o in range(0, size, 8):
                        v = self.load(Ptr(p.obj, p.off + off + o, p.via, p.slack), f64, i.loc)
                        reads.append(v if isinstance(v, (Sym, float, int)) and not isinstance(v, bool) else sym('unk', id(v)))
            for (ai, kind, off, size) in ASM_MODELS[name]:
                p = args[ai]
                if kind == 'W':
                    for o in range(0, size, 8):
                        self.store(Ptr(p.obj, p.off + off + o, p.via, p.slack), sym('asm', name, ai, off + o, *reads), f64, i.loc)
            return None
        if name in ('rint', 'ceil', 'floor', 'fabs', 'sqrt', 'cos', 'sin', 'log2', 'exp2') and isinstance(args[0], Sym):
            return sym(name, args[0])
        return Machine.call_external(self, name, args, i, fr)
