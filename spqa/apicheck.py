"""spqa.apicheck — instantiate the module-level API contract on shape boxes and check memory obligations."""
import itertools

from . import regions as RG
from .build import AnalysisBroken
from .contract import API
from .harness import Ctx, FFT64, NTT120
from .machine import Runaway
from .vals import Aborted, Aff, NeedEnum, Ptr, Unsupported, is_int, signed
from .trusted import TRUSTED


class Buf:
    def __init__(self, name, kind, role, ptr, declared, limb=None, nlimbs=None, stride=None):
        self.name = name
        self.kind = kind
        self.role = role
        self.ptr = ptr
        self.declared = declared      # normalized intervals (bytes) the callee may touch
        self.limb = limb              # bytes per limb
        self.nlimbs = nlimbs
        self.stride = stride          # bytes between limbs


class Run:
    def __init__(self, name, shape, cpu, mtype, alias):
        self.name = name
        self.shape = shape
        self.cpu = cpu
        self.mtype = mtype
        self.alias = alias
        self.status = None
        self.events = []
        self.bufs = {}
        self.ret = None

    def desc(self):
        d = dict(self.shape)
        d['cpu'] = self.cpu
        d['module'] = 'fft64' if self.mtype == FFT64 else 'ntt120'
        if self.alias:
            d['alias'] = '%s==%s' % self.alias
        return d


class ApiBox:
    """shared machines per (N, mtype, cpu, expand)"""

    def __init__(self, lib):
        self.lib = lib
        self.ctx = {}

    def get(self, N, mtype, cpu, expand):
        k = (N, mtype, cpu, expand)
        if k not in self.ctx:
            c = Ctx(self.lib, cpu=cpu, expand=bool(expand), trusted=TRUSTED, values=(expand == 'values'))
            # the access events of the module construction are never inspected (they are many in ordered mode for large N)
            c.m.record = False
            try:
                c.mod = c.module(N, mtype)
            finally:
                c.m.record = True
            c.N = N
            c.sizecache = {}
            self.ctx[k] = c
        return self.ctx[k]

    def size_of(self, c, fn, args):
        k = (fn,) + tuple(args)
        if k not in c.sizecache:
            st, ret, ev = c.run(fn, [c.mod] + list(args))
            del c.m.events[len(c.m.events) - len(ev):]
            if st != 'ok' or not is_int(ret):
                c.sizecache[k] = ('bad', st, ret)
            else:
                bad = [e for e in ev if e.kind in ('W', 'F', 'A', 'X')]
                c.sizecache[k] = ('ok', ret, bad)
        return c.sizecache[k]

    def limb_bytes(self, c, kind):
        """bytes per limb of an opaque vector"""
        N = c.N
        if c.mod_type == FFT64:
            return 8 * N
        return 32 * N if kind == 'dft' else 16 * N

    def instantiate(self, name, shape, cpu='accel', mtype=FFT64, alias=None, expand=False):
        spec = API[name]
        N = shape['N']
        c = self.get(N, mtype, cpu, expand)
        c.mod_type = mtype
        run = Run(name, shape, cpu, mtype, alias)
        args = []
        made = {}
        sh = dict(shape)
        sh['N'] = N

        def opaque_bytes(kind, size):
            if mtype == FFT64:
                fn = {'dft': 'bytes_of_vec_znx_dft', 'big': 'bytes_of_vec_znx_big'}[kind]
                r = self.size_of(c, fn, [size])
                if r[0] != 'ok':
                    raise AnalysisBroken('%s(%s) -> %r' % (fn, size, r))
                return r[1]
            return self.limb_bytes(c, kind) * size

        for p in spec['params']:
            k = p[0]
            if k == 'module':
                args.append(c.mod)
            elif k in ('int', 'k'):
                v = sh[p[1]]
                args.append(v & ((1 << 64) - 1))
            elif k == 'vec':
                _, nm, role, szp, slp = p
                size, sl = sh[szp], sh[slp]
                nbytes = ((size - 1) * sl + N) * 8 if size > 0 else 0
                decl = RG.limb_family(size, 8 * sl, 8 * N)
                b = Buf(nm, 'vec', role, None, decl, 8 * N, size, 8 * sl)
                b.nbytes = nbytes
                made[nm] = b
                args.append(nm)
            elif k in ('dft', 'big'):
                _, nm, role, szp = p
                size = sh[szp]
                nbytes = opaque_bytes(k, size)
                lb = self.limb_bytes(c, k)
                b = Buf(nm, k, role, None, RG.normalize([(0, nbytes)]), lb, size, lb)
                b.nbytes = nbytes
                made[nm] = b
                args.append(nm)
            elif k == 'bigrange':
                _, nm, role, bp, ep, sp = p
                beg, end, step = sh[bp], sh[ep], sh[sp]
                lb = self.limb_bytes(c, 'big')
                nbytes = opaque_bytes('big', end)
                idx = list(range(beg, end, step))
                decl = RG.normalize([(i * lb, (i + 1) * lb) for i in idx])
                b = Buf(nm, 'big', role, None, decl, lb, end, lb)
                b.nbytes = nbytes
                made[nm] = b
                args.append(nm)
            elif k == 'ppol':
                _, nm, role = p
                r = self.size_of(c, 'bytes_of_svp_ppol', [])
                if r[0] != 'ok':
                    raise AnalysisBroken('bytes_of_svp_ppol -> %r' % (r,))
                b = Buf(nm, 'ppol', role, None, RG.normalize([(0, r[1])]))
                b.nbytes = r[1]
                made[nm] = b
                args.append(nm)
            elif k == 'pmat':
                _, nm, role, rp, cp = p
                r = self.size_of(c, 'bytes_of_vmp_pmat', [sh[rp], sh[cp]])
                if r[0] != 'ok':
                    raise AnalysisBroken('bytes_of_vmp_pmat -> %r' % (r,))
                b = Buf(nm, 'pmat', role, None, RG.normalize([(0, r[1])]))
                b.nbytes = r[1]
                made[nm] = b
                args.append(nm)
            elif k == 'poly':
                _, nm, role = p
                b = Buf(nm, 'poly', role, None, RG.normalize([(0, 8 * N)]))
                b.nbytes = 8 * N
                made[nm] = b
                args.append(nm)
            elif k == 'mat':
                _, nm, role, rp, cp = p
                nb = 8 * N * sh[rp] * sh[cp]
                b = Buf(nm, 'mat', role, None, RG.normalize([(0, nb)]))
                b.nbytes = nb
                made[nm] = b
                args.append(nm)
            elif k == 'tmp':
                _, nm, fn, an = p
                r = self.size_of(c, fn, [sh[a] for a in an])
                if r[0] != 'ok':
                    raise AnalysisBroken('%s -> %r' % (fn, r))
                b = Buf(nm, 'tmp', 'scratch', None, RG.normalize([(0, r[1])]))
                b.nbytes = r[1]
                made[nm] = b
                args.append(nm)
            else:
                raise AnalysisBroken('contract kind ' + k)
        # allocate objects (aliased pair shares one object)
        for nm, b in made.items():
            if alias and nm == alias[1]:
                continue
            b.ptr = c.buf(nm, b.nbytes, b.role)
        if alias:
            o, i = alias
            made[o].ptr.obj.size = max(made[o].nbytes, made[i].nbytes)
            made[i].ptr = Ptr(made[o].ptr.obj, 0, i)
        args = [made[a].ptr if isinstance(a, str) else a for a in args]
        run.bufs = made
        st, ret, ev = c.run(name, args)
        run.status, run.ret, run.events = st, ret, ev
        del c.m.events[:]
        return run


# ----------------------------------------------------------------------------------------------------------------
def shapes_for(name, tier, alias=None):
    """the box of shape tuples for one entry point"""
    spec = API[name]
    quick = tier == 'quick'
    Ns = [2, 4, 8, 16] if quick else [2, 4, 8, 16, 32, 64]
    sizes = [0, 1, 2, 3] if quick else [0, 1, 2, 3, 5]
    ints = [p[1] for p in spec['params'] if p[0] == 'int']
    ks = [p[1] for p in spec['params'] if p[0] == 'k']
    rng = spec.get('ranges', {})
    mins = spec.get('min', {})
    size_params = [x for x in ints if x.endswith('_size') or x in ('nrows', 'ncols')]
    stride_params = [x for x in ints if x.endswith('_sl')]
    range_params = [x for x in ints if x.startswith('a_range')]
    out = []
    for N in Ns:
        strides = [N, N + 1] if quick else [N, N + 1, 2 * N + 3]
        doms = []
        names = []
        for sp in size_params:
            names.append(sp)
            doms.append([s for s in sizes if s >= mins.get(sp, 0)])
        # one stride choice shared by all vectors plus one 'mixed' choice keeps the box small
        for combo in itertools.product(*doms):
            base = dict(zip(names, combo))
            base['N'] = N
            stride_sets = []
            if stride_params:
                for s in strides:
                    stride_sets.append({sp: s for sp in stride_params})
                if len(stride_params) > 1:
                    stride_sets.append({sp: strides[j % len(strides)] for j, sp in enumerate(stride_params)})
            else:
                stride_sets = [{}]
            kdoms = [rng.get(kp, [1]) for kp in ks]
            for ss in stride_sets:
                for kv in itertools.product(*kdoms):
                    sh = dict(base)
                    sh.update(ss)
                    sh.update(dict(zip(ks, kv)))
                    if range_params:
                        for (b, e, st) in rng['range']:
                            s2 = dict(sh)
                            s2['a_range_begin'], s2['a_range_xend'], s2['a_range_step'] = b, e, st
                            out.append(s2)
                    else:
                        out.append(sh)
    # tall shapes: limb counts far beyond the small box (N = 2 keeps them cheap); they expose bounds that only bite for long
    # vectors (clamped loop starts, fixed-size temporaries)
    tall = [0, 33, 70] if quick else [0, 7, 33, 70, 200]
    if size_params and not any(p in ('nrows', 'ncols') for p in size_params):
        N = 2
        for combo in itertools.product(*[[s for s in tall if s >= mins.get(sp, 0)] for sp in size_params]):
            sh = dict(zip(size_params, combo))
            sh['N'] = N
            for sp in stride_params:
                sh[sp] = N + 1
            for kv in itertools.product(*[rng.get(kp, [1]) for kp in ks]):
                s2 = dict(sh)
                s2.update(dict(zip(ks, kv)))
                if range_params:
                    for (b, e, st) in [(0, 70, 1), (3, 70, 2), (1, 200, 3)]:
                        s3 = dict(s2)
                        s3['a_range_begin'], s3['a_range_xend'], s3['a_range_step'] = b, e, st
                        out.append(s3)
                else:
                    out.append(s2)
    if alias:
        o, i = alias
        res = []
        req = spec.get('alias_requires', {})
        for sh in out:
            # aliasing needs the same stride for both views
            osl, isl = o + '_sl', i + '_sl'
            if osl in sh and isl in sh and sh[osl] != sh[isl]:
                continue
            ok = True
            for k, v in req.items():
                if sh.get(k) != (sh['N'] if v == 'N' else v):
                    ok = False
            if ok:
                res.append(sh)
        out = res
    return out


# ----------------------------------------------------------------------------------------------------------------
def _buf_of(run, obj):
    return [b for b in run.bufs.values() if b.ptr is not None and b.ptr.obj is obj]


def check_run(run, ordered=False):
    """memory obligations of one instantiated call; returns list of findings (dict)"""
    F = []

    def add(rule, detail, loc=None, clause=None):
        F.append({'rule': rule, 'fn': run.name, 'shape': run.desc(), 'detail': detail, 'loc': loc, 'clause': clause or rule})

    if run.status != 'ok':
        if run.status[0] == 'runaway':
            add('loop-bound-wraps', 'loop in %s runs %s iterations' % (run.status[3], run.status[2]), run.status[1])
        else:
            add('aborts-in-domain', 'call aborts at %s' % (run.status[1],), run.status[1])
        return F
    written = {}   # obj id -> normalized intervals written so far (ordered mode)
    wr_all = {}
    for e in run.events:
        if e.kind == 'X':
            if e.note and e.note.startswith('alignment-dependent'):
                add('alignment-dependent-path', e.note, e.loc)
            elif e.note and e.note.startswith('narrow-overflow'):
                add('narrow-overflow', e.note, e.loc)
            else:
                add('unknown-access', e.note or 'unmodelled access', e.loc)
            continue
        if e.kind in ('A',):
            continue
        if e.obj is None:
            continue
        o = e.obj
        if e.kind == 'F':
            if o.kind == 'arg' or getattr(o, 'role', None) == 'table':
                add('frees-caller-memory', 'free() of %s' % o.name, e.loc)
            continue
        if o.kind == 'global':
            if e.kind == 'W' and not getattr(o, 'const', False):
                add('writes-global', 'write to static %s' % o.name, e.loc)
            continue
        if o.kind == 'cpu':
            continue
        if getattr(o, 'role', None) == 'table':
            if e.kind == 'W':
                add('writes-table', 'write into table memory %s' % o.name, e.loc)
            elif o.size is not None:
                lo, hi = RG.hull(e)
                slack = getattr(o, 'align_slack', 0)
                if lo < 0 or hi > o.size:
                    add('table-read-out-of-bounds', 'read [%d,%d) of table %s of %d bytes' % (lo, hi, o.name, o.size), e.loc)
            continue
        if o.kind == 'heap':
            # temporary allocated during the call
            if o.size is not None:
                lo, hi = RG.hull(e)
                if lo < 0 or hi > o.size:
                    add('heap-out-of-bounds', '%s [%d,%d) of %d-byte temporary' % (e.kind, lo, hi, o.size), e.loc)
            continue
        if o.kind != 'arg':
            continue
        bufs = _buf_of(run, o)
        if not bufs:
            add('unknown-access', 'access to foreign object %s' % o.name, e.loc)
            continue
        try:
            iv = RG.normalize(RG.event_intervals(e))
        except RG.TooBig as x:
            lo, hi = RG.hull(e)
            iv = [(lo, hi)]
        if e.kind == 'R':
            allowed = RG.normalize([x for b in bufs for x in b.declared])
            bad = RG.subtract(iv, allowed)
            if bad:
                add('read-outside-declared-extent',
                    'reads bytes %s of `%s` (declared %s)' % (_fmt(bad), '/'.join(b.name for b in bufs), _fmt(allowed)), e.loc)
            if ordered:
                # bytes of out/scratch buffers must have been written earlier in the call
                if all(b.role in ('out', 'scratch') for b in bufs):
                    w = written.get(id(o), [])
                    miss = RG.subtract(RG.intersect(iv, allowed), w)
                    if miss:
                        add('read-before-write',
                            'reads bytes %s of %s `%s` that the call has not written yet' % (
                                _fmt(miss), bufs[0].role, bufs[0].name), e.loc)
        else:
            wb = [b for b in bufs if b.role in ('out', 'inout', 'scratch')]
            if not wb:
                add('writes-source-operand', 'writes bytes %s of source operand `%s`' % (_fmt(iv), bufs[0].name), e.loc)
                continue
            allowed = RG.normalize([x for b in wb for x in b.declared])
            bad = RG.subtract(iv, allowed)
            if bad:
                add('write-outside-declared-extent',
                    'writes bytes %s of `%s` (declared %s)%s' % (_fmt(bad), '/'.join(b.name for b in wb), _fmt(allowed),
                                                                 ' - pointer rounded up to an alignment the caller buffer need not have' if getattr(e, 'slack', 0) else ''), e.loc)
            if not e.may and not getattr(e, 'slack', 0):
                wr_all[id(o)] = RG.normalize(wr_all.get(id(o), []) + iv)
            if ordered:
                written[id(o)] = RG.normalize(written.get(id(o), []) + iv)
    # exact cover of outputs
    for b in run.bufs.values():
        if b.role == 'out' and b.ptr is not None:
            w = wr_all.get(id(b.ptr.obj), [])
            miss = RG.subtract(b.declared, w)
            if miss:
                add('output-not-fully-written', 'bytes %s of output `%s` are never written' % (_fmt(miss), b.name), None)
    return F


def _fmt(iv, n=4):
    s = ','.join('[%d,%d)' % x for x in iv[:n])
    if len(iv) > n:
        s += ',...(%d intervals)' % len(iv)
    return s
