"""spqa.effects — E2: may-read / may-write / may-free sets by provenance, bottom-up over the resolved
call graph (all dispatch candidates of every indirect call).  Flow-insensitive inside a function, so it is
an over-approximation for every input, shape and path.

Roots (memory an access may touch):
  ('arg', j, d)     d=0: the object argument j points into; d=1: anything reachable from it through loads
  ('iarg', j, d)    the same for an integer argument that may carry a pointer (ceilto64b((uint64_t)p) idiom);
                    instantiated at call sites, ignored at contract level (no API passes pointers as integers)
  ('glob', unit|None, name, d)
  ('heap', fnkey, instr id, d)   allocation made at that site
  ('loc', fnkey, instr id)       alloca of the function itself (dropped when leaving the function)
  ('unknown',)
Error paths (blocks from which every path ends in abort()/unreachable) contribute no effects."""
from collections import defaultdict

from .build import AnalysisBroken

PURE_EXT = {'cosf', 'sinf', 'sqrtf', 'fabsf', 'log2f', 'exp2f', 'ceilf', 'floorf', 'rintf', 'cos', 'sin', 'log2', 'exp2', 'pow', 'ceil', 'floor', 'rint', 'fabs', 'sqrt', 'log', 'exp', 'round',
            'llvm.fma.v4f64', 'llvm.fmuladd.f64', 'llvm.fma.v2f64', 'llvm.fma.f64', 'llvm.x86.avx2.psrli.q',
            'llvm.x86.fma.vfmaddsub.pd.256', 'llvm.x86.avx512.vfmaddsub.pd.512', 'llvm.ctpop.i32', 'llvm.rint.f64',
            'llvm.x86.avx.addsub.pd.256', 'llvm.x86.fma.vfmaddsub.pd', 'llvm.fabs.f64', 'llvm.x86.avx.vzeroupper',
            'llvm.ceil.f64', 'llvm.assume', 'llvm.x86.avx2.psllv.q.256', 'llvm.x86.avx2.psrlv.q.256',
            'llvm.fma.v8f64', 'llvm.ctpop.i64', 'llvm.floor.f64', 'llvm.sqrt.f64', 'llvm.fmuladd.v4f64',
            'llvm.lifetime.start.p0i8', 'llvm.lifetime.end.p0i8', 'llvm.dbg.value', 'llvm.dbg.declare',
            'llvm.experimental.noalias.scope.decl', 'nextafter', 'nextafterf', 'ldexp', 'ldexpf', 'scalbn', 'scalbnf', 'fmin', 'fmax', 'copysign', 'fmod', 'trunc', 'truncf', 'nearbyint', 'fma', 'fmaf', 'hypot', 'atan2', 'tan', 'atan', 'acos', 'asin', 'sqrtf', 'cbrt', 'lround', 'lrint', 'llrint', 'llround'}
ALLOC_EXT = {'malloc': None, 'aligned_alloc': None, 'calloc': None, 'posix_memalign': None, '_aligned_malloc': None}
FREE_EXT = {'free', '_aligned_free'}
FPENV = ('glob', None, '<floating-point environment>', 0)
FPENV_WRITE = {'llvm.x86.sse.ldmxcsr', 'fesetround', 'fesetenv', 'feupdateenv', 'fesetexceptflag', 'feraiseexcept', 'feclearexcept',
               'feholdexcept', 'llvm.set.rounding', 'feenableexcept', 'fedisableexcept', 'fesetmode', '_controlfp', '_control87'}
FPENV_READ = {'llvm.x86.sse.stmxcsr', 'fegetround', 'fegetenv', 'llvm.flt.rounds', 'llvm.get.rounding', 'fetestexcept', 'fegetexceptflag',
              'fegetmode'}
NORETURN_EXT = {'abort', 'exit', '_exit', '__assert_fail'}
IO_EXT = {'fwrite', 'fputs', 'fprintf', 'printf', 'putchar', 'puts', 'fputc', 'fflush', 'strerror', '__errno_location',
          'perror'}
READONLY_EXT = {'bcmp', 'memcmp', 'strlen', 'strcmp'}


def align_sensitive(ty, align):
    """IR alignment above the natural alignment of the scalar element type (DESIGN Appendix B)"""
    k = ty.get('k')
    if k == 'vec':
        nat = max(1, ty['elt'].get('bits', 8) // 8)
    elif k in ('int', 'fp', 'ptr'):
        nat = max(1, (ty.get('bits', 8) + 7) // 8)
    else:
        return False
    return align > nat


def deref(root):
    k = root[0]
    if k == 'arg' or k == 'iarg':
        return (k, root[1], 1)
    if k == 'glob':
        return ('glob', root[1], root[2], 1)
    if k == 'heap':
        return ('heap', root[1], root[2], 1)
    if k == 'unknown':
        return root
    return None  # 'loc' handled through the store table


class FnSummary:
    def __init__(self):
        self.writes = set()
        self.reads = set()
        self.frees = set()
        self.ret = set()
        self.ptrstores = set()   # (target root, value root)
        self.aligned = set()     # roots accessed with an alignment-sensitive load/store
        self.aligned_sites = defaultdict(list)
        self.greads = set()      # (unit, name) of globals read directly or transitively (depth 0)
        self.io = False
        self.always_aborts = False
        self.write_sites = defaultdict(list)  # root -> [(fn name, loc, how)]
        self.free_sites = defaultdict(list)
        self.unknown_calls = []

    def sig(self):
        return (frozenset(self.writes), frozenset(self.reads), frozenset(self.frees), frozenset(self.ret),
                frozenset(self.ptrstores), self.io, self.always_aborts, frozenset(self.aligned))


class Effects:
    def __init__(self, lib, cg):
        self.lib = lib
        self.cg = cg
        self._callinfo = {}
        for k, lst in cg.calls.items():
            for (i, ts, ext, key) in lst:
                self._callinfo[(k, i.id)] = (ts, ext, key)
        # An integer loaded from caller-visible memory is taken to be a number, not a pointer in disguise, as long as no
        # function of the library stores a pointer-derived integer into such memory (checked while analysing; if one does,
        # the analysis is redone with every loaded 64-bit integer treated as a possible pointer).  Integer arithmetic on a
        # ptrtoint result (alignment rounding) keeps the pointer's provenance in both modes.
        self.precise_ints = True
        self.laundering = []
        self.summ = {}
        self.unmodelled = set()
        self._run()
        if self.laundering:
            self.precise_ints = False
            self.summ = {}
            self.unmodelled = set()
            self._run()

    # ---------------------------------------------------------------------------------------------
    def _run(self):
        for comp in self.cg.sccs():
            for f in comp:
                self.summ[f.key] = FnSummary()
            for _ in range(50):
                changed = False
                for f in comp:
                    old = self.summ[f.key].sig()
                    self._analyse(f)
                    if self.summ[f.key].sig() != old:
                        changed = True
                if not changed:
                    break
            else:
                raise AnalysisBroken('effects fixpoint did not converge on %s' % [f.name for f in comp])

    def _error_blocks(self, f):
        """blocks from which every path ends in unreachable / a call that always aborts"""
        err = set()
        aborting_call = set()
        for b in f.blocks:
            for i in b.instrs:
                if i.op == 'call':
                    c = i.get('callee')
                    if c in NORETURN_EXT or i.get('noreturn'):
                        aborting_call.add(b.id)
                    elif c is not None:
                        t = self.lib.resolve(f.unit, c)
                        if t is not None and t.key in self.summ and self.summ[t.key].always_aborts:
                            aborting_call.add(b.id)
        changed = True
        while changed:
            changed = False
            for b in f.blocks:
                if b.id in err:
                    continue
                if b.id in aborting_call or b.term.op == 'unreachable' or (b.succs and all(s in err for s in b.succs)):
                    err.add(b.id)
                    changed = True
        return err

    def _analyse(self, f):
        S = self.summ[f.key]
        lib = self.lib
        err = self._error_blocks(f)
        S.always_aborts = 0 in err
        prov = {}            # instr id -> set(roots)
        locstore = defaultdict(set)  # ('loc'|'heap' root d0) -> set of value roots stored into it

        def tracks(ty):
            k = ty.get('k')
            return k == 'ptr' or (k == 'int' and ty.get('bits') == 64)

        def cprov(ref):
            k = ref.get('k')
            if k == 'i':
                return prov.get(ref['v'], set())
            if k == 'a':
                if f.args[ref['v']]['ty']['k'] == 'ptr':
                    return {('arg', ref['v'], 0)}
                return {('iarg', ref['v'], 0)}
            if k == 'g':
                if ref.get('fn'):
                    return set()
                g = lib.resolve_global(f.unit, ref['v'])
                if g is not None:
                    return {('glob', g['unit'] if g['internal'] else None, g['name'], 0)}
                return {('glob', None, ref['v'], 0)}
            if k == 'ce':
                out = set()
                for o in ref['ops']:
                    out |= cprov(o)
                return out
            return set()

        def dr(roots):
            out = set()
            for r in roots:
                if r[0] == 'loc':
                    out |= locstore[r]
                elif r[0] == 'heap' and r[3] == 0:
                    out |= locstore[r]
                    out.add(deref(r))
                else:
                    d = deref(r)
                    if d:
                        out.add(d)
            return out

        def note_write(roots, i, how):
            for r in roots:
                if r[0] == 'loc':
                    continue
                S.writes.add(r)
                if len(S.write_sites[r]) < 6:
                    S.write_sites[r].append((f.name, i.loc, how))

        def note_aligned(roots, i):
            for r in roots:
                if r[0] == 'loc':
                    continue
                S.aligned.add(r)
                if len(S.aligned_sites[r]) < 4:
                    S.aligned_sites[r].append((f.name, i.loc))

        def note_read(roots):
            for r in roots:
                if r[0] != 'loc':
                    S.reads.add(r)

        for _ in range(40):
            changed = False

            def setp(i, roots):
                nonlocal changed
                old = prov.get(i.id)
                if old is None:
                    prov[i.id] = set(roots)
                    if roots:
                        changed = True
                elif not roots <= old:
                    old |= roots
                    changed = True

            for b in f.blocks:
                if b.id in err or not b.reachable:
                    continue
                for i in b.instrs:
                    op = i.op
                    if op == 'alloca':
                        setp(i, {('loc', f.key, i.id)})
                    elif op == 'getelementptr':
                        setp(i, cprov(i['gep']['base']))
                    elif op in ('bitcast', 'inttoptr', 'ptrtoint', 'addrspacecast'):
                        setp(i, cprov(i.ops[0]))
                    elif op in ('add', 'sub', 'and', 'or', 'xor', 'mul', 'shl', 'lshr', 'ashr'):
                        if tracks(i.ty):
                            r = set()
                            for o in i.ops:
                                r |= cprov(o)
                            setp(i, r)
                    elif op == 'phi':
                        if tracks(i.ty):
                            r = set()
                            for v, _ in i['incoming']:
                                r |= cprov(v)
                            setp(i, r)
                    elif op == 'select':
                        if tracks(i.ty):
                            setp(i, cprov(i.ops[1]) | cprov(i.ops[2]))
                    elif op == 'load':
                        a = cprov(i.ops[0])
                        note_read(a)
                        if align_sensitive(i.ty, i['align']):
                            note_aligned(a, i)
                        if tracks(i.ty):
                            if i.ty.get('k') == 'int' and self.precise_ints:
                                setp(i, {x for r in a if (r[0] == 'loc' or (r[0] == 'heap' and r[3] == 0)) for x in locstore[r]})
                            else:
                                setp(i, dr(a))
                    elif op == 'store':
                        a = cprov(i.ops[1])
                        note_write(a, i, 'store')
                        if align_sensitive(i['valty'], i['align']):
                            note_aligned(a, i)
                        if tracks(i['valty']):
                            v = cprov(i.ops[0])
                            if v and i['valty'].get('k') == 'int' and self.precise_ints and \
                                    any(x[0] in ('arg', 'glob', 'heap') for x in v) and any(r[0] != 'loc' for r in a):
                                self.laundering.append((f.name, i.loc))
                            if v:
                                for r in a:
                                    if r[0] == 'loc' or (r[0] == 'heap' and r[3] == 0):
                                        if not v <= locstore[r]:
                                            locstore[r] |= v
                                            changed = True
                                    if r[0] != 'loc':
                                        for x in v:
                                            if x[0] != 'loc' and (r, x) not in S.ptrstores:
                                                S.ptrstores.add((r, x))
                                                changed = True
                    elif op == 'call':
                        self._call(f, i, S, prov, cprov, dr, setp, note_write, note_read, locstore)
                    elif op == 'ret':
                        if i.ops and tracks(f.ret):
                            r = {x for x in cprov(i.ops[0]) if x[0] != 'loc'}
                            if not r <= S.ret:
                                S.ret |= r
                                changed = True
            if not changed:
                break
        else:
            raise AnalysisBroken('intra-procedural provenance did not converge in ' + f.name)
        self._prov = prov

    def _call(self, f, i, S, prov, cprov, dr, setp, note_write, note_read, locstore):
        c = i.get('callee')
        ts, ext, key = self._callinfo.get((f.key, i.id), ([], [], None))
        if i.get('intrinsic') or (c is not None and not ts):
            name = c
            if name.startswith('llvm.memcpy') or name.startswith('llvm.memmove') or name in ('memcpy', 'memmove'):
                d, s = cprov(i.ops[0]), cprov(i.ops[1])
                note_write(d, i, 'memcpy')
                note_read(s)
                vs = dr(s)
                for r in d:
                    if r[0] == 'loc' or (r[0] == 'heap' and r[3] == 0):
                        locstore[r] |= vs
                    if r[0] != 'loc':
                        for x in vs:
                            if x[0] != 'loc':
                                S.ptrstores.add((r, x))
                return
            if name.startswith('llvm.memset') or name == 'memset':
                note_write(cprov(i.ops[0]), i, 'memset')
                return
            if name in ALLOC_EXT:
                setp(i, {('heap', f.key, i.id, 0)})
                return
            if name in FREE_EXT:
                for r in cprov(i.ops[0]):
                    S.frees.add(r)
                    S.free_sites[r].append((f.name, i.loc))
                return
            if name in NORETURN_EXT:
                return
            if name in IO_EXT:
                S.io = True
                return
            if name in FPENV_WRITE:
                # the floating-point environment (rounding mode, flush-to-zero, exception masks) is process/thread state
                note_write({FPENV}, i, 'floating-point environment (' + name + ')')
                return
            if name in FPENV_READ:
                S.reads.add(FPENV)
                return
            if name in READONLY_EXT:
                for o in i.ops:
                    note_read(cprov(o))
                return
            if name in PURE_EXT or name.startswith('llvm.dbg') or name.startswith('llvm.lifetime') or name.startswith('llvm.prefetch'):
                return
            if self.lib.meta['asm'] and name in ASM_KERNELS:
                w, r = ASM_KERNELS[name]
                for j in w:
                    note_write(cprov(i.ops[j]), i, 'asm ' + name)
                for j in r:
                    note_read(cprov(i.ops[j]))
                return
            self.unmodelled.add(name)
            S.unknown_calls.append((i.loc, name))
            note_write({('unknown',)}, i, 'unmodelled external ' + name)
            return
        if not ts:
            S.unknown_calls.append((i.loc, 'indirect:' + str(key)))
            note_write({('unknown',)}, i, 'unresolved indirect call')
            return
        actual = [cprov(o) for o in i.ops]

        def inst(r):
            """callee root -> set of caller roots"""
            if r[0] == 'arg' or r[0] == 'iarg':
                if r[1] >= len(actual):
                    return {('unknown',)}
                a = actual[r[1]]
                return dr(a) if r[2] else set(a)
            return {r}

        retp = set()
        for t in ts:
            T = self.summ.get(t.key)
            if T is None:
                continue  # same SCC, not yet computed: picked up by the fixpoint
            for r in T.writes:
                for x in inst(r):
                    if x[0] != 'loc':
                        S.writes.add(x)
                        if len(S.write_sites[x]) < 6:
                            for site in T.write_sites.get(r, [])[:2]:
                                S.write_sites[x].append(site)
            for r in T.reads:
                note_read(inst(r))
            for r in T.aligned:
                for x in inst(r):
                    if x[0] != 'loc':
                        S.aligned.add(x)
                        if len(S.aligned_sites[x]) < 4:
                            S.aligned_sites[x].extend(T.aligned_sites.get(r, [])[:2])
            for r in T.frees:
                for x in inst(r):
                    S.frees.add(x)
                    S.free_sites[x].extend(T.free_sites.get(r, [])[:2])
            for (tr, vr) in T.ptrstores:
                vs = set()
                for v in inst(vr):
                    vs.add(v)
                for x in inst(tr):
                    if x[0] == 'loc' or (x[0] == 'heap' and x[3] == 0):
                        locstore[x] |= vs
                    if x[0] != 'loc':
                        for v in vs:
                            if v[0] != 'loc':
                                S.ptrstores.add((x, v))
            for r in T.ret:
                retp |= inst(r)
            S.io = S.io or T.io
            S.unknown_calls.extend(T.unknown_calls[:3])
        setp(i, retp)


# the four hand-written x86-64 kernels: (written argument indices, read argument indices); confirmed by asmscan
ASM_KERNELS = {
    'reim_fft16_avx_fma': ([0, 1], [0, 1, 2]),
    'reim_ifft16_avx_fma': ([0, 1], [0, 1, 2]),
    'cplx_fft16_avx_fma': ([0], [0, 1]),
    'cplx_ifft16_avx_fma': ([0], [0, 1]),
}
