"""spqa.fperr — E7: a-priori rounding-error bound of a linear transform network (norm-wise, level by level).

The transform is executed symbolically once in *one-step mode*: every store to the data buffer defines a new generation of
that word by an expression over the previous generation of the words it reads (the twiddles are the concrete doubles of the
table built by the library's constructor).  The definitions are grouped into levels by data dependence; a level is a
block-diagonal linear map.  For every block:
  B~   the matrix with the stored double constants (exact products / sums of them, 192-bit),
  B    the matrix with every multiplier constant replaced by the exact value it approximates, cos(pi*k/(2M)) for the
       integer k nearest to its angle (M = transform size; the match must be within 2^-49 or there is no verdict; the actual distance enters the bound),
  E    the rounding matrix: E_ji = sum over paths |coefficient| * gamma(d), d = number of floating-point roundings on the path
       from input i to output j (fadd/fsub/fmul = one rounding, fma counted as two so that the bound does not depend on floating-point contraction), gamma(d) = d*u/(1 - d*u), u = 2^-53
       (standard model fl(a op b) = (a op b)(1 + delta), |delta| <= u: |computed - B~ z| <= E |z| componentwise),
and the 2-norms / smallest singular values are computed numerically at 60 digits.  With sigma_l = min singular value and
S_l = max singular value of the exact level, t_l = max ||B~ - B||_2 and e_l = max ||E||_2 over its blocks, the relative error
r_l of the computed level-l vector against the exact-twiddle network obeys
        r_l <= (S_l / sigma_l) * r_{l-1} + ((t_l + e_l) / sigma_l) * (1 + r_{l-1}),        r_0 = 0,
which is iterated numerically.  The exact-twiddle network is the DFT itself (its matrix entries are roots of unity and the
stored-twiddle matrix agrees with the DFT far below the spacing of roots: C06 clauses matrix/S)."""
from mpmath import mp, mpf

from .values import Sym
from .vals import Unsupported, is_int

mp.prec = 200
U = mpf(2) ** -53


class NoVerdict(Exception):
    pass


def gamma(d):
    return d * U / (1 - d * U)


class Forms:
    """node -> {atom: [coef_stored, coef_exact, abs_times_gamma_paths]} where the third component is accumulated per path"""

    def __init__(self, M, defs=None, cut=False):
        self.M = M
        self.defs = defs or {}
        self.cut = cut
        self.memo = {}
        self.cmemo = {}
        self.worst_const = mpf(0)

    def exact_const(self, c):
        """(stored, exact) for a multiplier constant"""
        r = self.cmemo.get(c)
        if r is not None:
            return r
        x = mpf(c)
        if x == 0 or abs(x) == 1 or abs(x) == mpf('0.5') or abs(x) == 2:
            r = (x, x)
        elif abs(x) < 1:
            k = mp.nint(mp.acos(x) * 2 * self.M / mp.pi)
            ex = mp.cos(mp.pi * k / (2 * self.M))
            err = abs(ex - x)
            if err > mpf(2) ** -49:
                raise NoVerdict('multiplier constant %r is not within 2^-49 of cos(pi*k/(2*%d))' % (c, self.M))
            self.worst_const = max(self.worst_const, err / U)
            r = (x, ex)
        else:
            raise NoVerdict('multiplier constant %r of magnitude above 1' % (c,))
        self.cmemo[c] = r
        return r

    def of(self, v, top=True):
        """returns (const pair or None, {variable: [cs, ce, {depth: abs}]}).  With `self.cut` the sums below the root are
        variables of their own (one definition per fadd/fsub/fma node)"""
        if isinstance(v, float) or is_int(v):
            return (self.exact_const(float(v)), {})
        if not isinstance(v, Sym):
            raise NoVerdict('opaque value')
        if self.cut and not top:
            w = self.resolve(v)
            if isinstance(w, Sym) and (w.e[0] in ('fadd', 'fsub', 'fma') or (w.e[0] == 'in' and w is not v)):
                return (None, {w: [mpf(1), mpf(1), {0: mpf(1)}]})
            v = w if isinstance(w, Sym) else v
        key = (v, top) if self.cut else v
        r = self.memo.get(key)
        if r is not None:
            return r
        e = v.e
        op = e[0]
        if self.cut:
            of = lambda x: self.of(x, False)        # noqa
        else:
            of = self.of
        if op == 'in':
            r = (None, {(v if self.cut else e): [mpf(1), mpf(1), {0: mpf(1)}]})
        elif op in ('fadd', 'fsub'):
            r = self._round(self._add(of(e[1]), of(e[2]), 1 if op == 'fadd' else -1))
        elif op == 'fneg' or (op == 'xor' and e[1] == 64 and (1 << 63) in e[2:4]):
            x = e[1] if op == 'fneg' else (e[2] if is_int(e[3]) else e[3])
            a = of(x)
            r = (None if a[0] is None else (-a[0][0], -a[0][1]),
                 {k: [-c[0], -c[1], dict(c[2])] for k, c in a[1].items()})
        elif op == 'fmul':
            r = self._round(self._mul(of(e[1]), of(e[2])))
        elif op == 'fma':
            # counted as two roundings: the bound then holds whether or not the compiler of the shipped binary contracts
            # a*b+c (the IR analysed here and the shipped object code may differ in that respect)
            r = self._round(self._add(self._round(self._mul(of(e[1]), of(e[2]))), of(e[3]), 1))
        else:
            raise NoVerdict('operation %s in the data path' % op)
        self.memo[key] = r
        return r

    def resolve(self, v):
        """a data word of some generation is the value that was stored into it"""
        while isinstance(v, Sym) and v.e[0] == 'in' and '#' in v.e[1]:
            d = self.defs.get((v.e[2], int(v.e[1].split('#')[1])))
            if d is None:
                break
            v = d
        return v

    @staticmethod
    def _add(a, b, s):
        if (a[0] is not None and (a[0][0] != 0)) or (b[0] is not None and b[0][0] != 0):
            raise NoVerdict('additive constant in the data path')
        d = {k: [c[0], c[1], dict(c[2])] for k, c in a[1].items()}
        for k, c in b[1].items():
            if k in d:
                d[k][0] += s * c[0]
                d[k][1] += s * c[1]
                for dep, ab in c[2].items():
                    d[k][2][dep] = d[k][2].get(dep, mpf(0)) + ab
            else:
                d[k] = [s * c[0], s * c[1], dict(c[2])]
        return (None, d)

    @staticmethod
    def _mul(a, b):
        if a[1] and b[1]:
            raise NoVerdict('product of two data-dependent values')
        if b[1]:
            a, b = b, a
        if b[0] is None:
            raise NoVerdict('product without a constant factor')
        ks, ke = b[0]
        if not a[1]:
            return ((a[0][0] * ks, a[0][1] * ke), {})
        return (None, {x: [c[0] * ks, c[1] * ke, {dep: ab * abs(ks) for dep, ab in c[2].items()}] for x, c in a[1].items()})

    @staticmethod
    def _round(r):
        """one more rounding on every path"""
        if not r[1]:
            return r          # a constant folded at table-construction precision is taken as given
        return (r[0], {x: [c[0], c[1], {dep + 1: ab for dep, ab in c[2].items()}] for x, c in r[1].items()})


def norm2(rows, cols, entries):
    """2-norm and smallest singular value of a small dense matrix given as {(i,j): value}"""
    A = mp.matrix(len(rows), len(cols))
    ri = {r: i for i, r in enumerate(rows)}
    ci = {c: j for j, c in enumerate(cols)}
    for (r, c), v in entries.items():
        A[ri[r], ci[c]] = v
    fro = mp.sqrt(sum(v * v for v in entries.values()))
    if fro == 0:
        return mpf(0), mpf(0)
    try:
        s = mp.svd_r(A / fro, compute_uv=False)
        vals = [s[i] * fro for i in range(len(s))]
        return max(vals), min(vals)
    except Exception:
        # no convergence of the numerical SVD (degenerate tiny matrices): the Frobenius norm is an upper bound of the 2-norm;
        # no lower bound of the smallest singular value is available
        return fro, None


def analyse(defs, name, M, progress=None):
    """defs: {(off, gen): expr}.  Returns dict with the bound and per-level figures."""
    F = Forms(M)
    # levels by data dependence
    forms = {}
    level = {}

    def atom_level(a):
        nm = a[1]
        if '#' not in nm:
            return 0
        g = int(nm.split('#')[1])
        return level[(a[2], g)]

    for key in sorted(defs, key=lambda k: (k[1], k[0])):
        c0, d = F.of(defs[key])
        if c0 is not None and not d:
            raise NoVerdict('word %d is overwritten with a constant' % key[0])
        forms[key] = d
        level[key] = 1 + max(atom_level(a) for a in d)
    if not level:
        return {'levels': 0, 'bound_in_u': 0.0, 'per_level': [], 'worst_constant_error_in_u': 0.0}
    nlev = max(level.values())
    per = []
    r = mpf(0)
    for l in range(1, nlev + 1):
        keys = [k for k in forms if level[k] == l]
        # blocks: connected components of the bipartite output/input graph
        parent = {}

        def find(x):
            while parent.get(x, x) != x:
                parent[x] = parent.get(parent[x], parent[x])
                x = parent[x]
            return x

        for k in keys:
            for a in forms[k]:
                ra, rk = find(('a', a)), find(('o', k))
                if ra != rk:
                    parent[ra] = rk
        blocks = {}
        for k in keys:
            blocks.setdefault(find(('o', k)), []).append(k)
        S = sg = None
        t = e = mpf(0)
        cache = {}
        for outs in blocks.values():
            ins = sorted({a for k in outs for a in forms[k]}, key=str)
            if len(ins) != len(outs):
                raise NoVerdict('level %d: a block maps %d words to %d words' % (l, len(ins), len(outs)))
            sig = tuple(tuple((ins.index(a), c[0], tuple(sorted(c[2].items()))) for a, c in sorted(forms[k].items(), key=lambda kv: ins.index(kv[0])))
                        for k in sorted(outs))
            hit = cache.get(sig)
            if hit is None:
                Bs, Be, E = {}, {}, {}
                for k in outs:
                    for a, c in forms[k].items():
                        Bs[(k, a)] = c[0]
                        Be[(k, a)] = c[1]
                        E[(k, a)] = sum(ab * gamma(dep) for dep, ab in c[2].items())
                smax, smin = norm2(outs, ins, Be)
                if smin is None:
                    raise NoVerdict('level %d: singular values of a block not obtained' % l)
                tn, _ = norm2(outs, ins, {kk: Bs[kk] - Be[kk] for kk in Bs})
                en, _ = norm2(outs, ins, E)
                hit = (smax, smin, tn, en)
                cache[sig] = hit
            smax, smin, tn, en = hit
            S = smax if S is None else max(S, smax)
            sg = smin if sg is None else min(sg, smin)
            t, e = max(t, tn), max(e, en)
        if sg == 0:
            raise NoVerdict('level %d is singular' % l)
        r = (S / sg) * r + ((t + e) / sg) * (1 + r)
        per.append({'level': l, 'blocks': len(blocks), 'block_size': max(len(b) for b in blocks.values()),
                    'rounding': float(e / sg / U), 'twiddle': float(t / sg / U), 'cond': float(S / sg)})
        if progress:
            progress(l, nlev)
    return {'levels': nlev, 'bound_in_u': float(r / U), 'per_level': per, 'worst_constant_error_in_u': float(F.worst_const)}


def analyse_dag(defs, name, M):
    """as `analyse`, with one variable per addition node of the expression DAG (fadd / fsub / fma): register-resident stages
    of fused kernels become levels of their own.  A level maps the variables alive before it to the variables alive after
    it; a variable that is merely kept is an identity row."""
    F = Forms(M, defs, cut=True)
    last = {}
    for (off, g) in defs:
        if g > last.get(off, 0):
            last[off] = g
    outs = []
    for off, g in sorted(last.items()):
        v = F.resolve(defs[(off, g)])
        if not isinstance(v, Sym):
            raise NoVerdict('word %d ends as a constant' % off)
        outs.append(v)
    # variables and their definitions (raw), in dependency order
    raw = {}
    topo = []
    seen = set()
    stack = [(v, False) for v in outs]
    while stack:
        v, done = stack.pop()
        if done:
            topo.append(v)
            continue
        if v in seen:
            continue
        seen.add(v)
        if v.e[0] == 'in':
            continue
        c0, d = F.of(v, True)
        if not d:
            raise NoVerdict('a stage computes a constant')
        raw[v] = d
        stack.append((v, True))
        for ch in d:
            if ch not in seen:
                stack.append((ch, False))
    # two stages that are exact negatives of each other (fmaddsub-style code computes x and -x separately; rounding is
    # symmetric, so the computed values are exact negatives as well) are one variable
    alias = {}
    bysig = {}
    form = {}
    for v in topo:
        d = {}
        for ch, c in raw[v].items():
            rep, sgn = alias.get(ch, (ch, 1))
            if rep in d:
                d[rep][0] += sgn * c[0]
                d[rep][1] += sgn * c[1]
                for dep, ab in c[2].items():
                    d[rep][2][dep] = d[rep][2].get(dep, mpf(0)) + ab
            else:
                d[rep] = [sgn * c[0], sgn * c[1], dict(c[2])]
        sig = tuple(sorted((id(ch), c[0], tuple(sorted(c[2].items()))) for ch, c in d.items()))
        neg = tuple(sorted((id(ch), -c[0], tuple(sorted(c[2].items()))) for ch, c in d.items()))
        if sig in bysig:
            alias[v] = (bysig[sig], 1)
        elif neg in bysig:
            alias[v] = (bysig[neg], -1)
        else:
            bysig[sig] = v
            form[v] = d
    outs = [alias.get(v, (v, 1))[0] for v in outs]
    level = {}
    order = []
    stack = [(v, False) for v in outs]
    while stack:
        v, done = stack.pop()
        if v in level:
            continue
        if v.e[0] == 'in':
            level[v] = 0
            continue
        if not done:
            stack.append((v, True))
            for ch in form[v]:
                if ch not in level:
                    stack.append((ch, False))
        else:
            # pure sums (all coefficients +-1) on even levels, stages with multipliers on odd levels: a level then holds one
            # kind of stage only (kept variables fill the gaps), whatever order the code interleaves them in
            lv = 1 + max(level[ch] for ch in form[v])
            pure = all(abs(c[1]) == 1 for c in form[v].values())
            if (lv % 2 == 0) != pure:
                lv += 1
            level[v] = lv
            order.append(v)
    if not form:
        return {'levels': 0, 'bound_in_u': 0.0, 'per_level': [], 'worst_constant_error_in_u': 0.0}
    nlev = max(level.values())
    # weights: a positive diagonal change of variables per level (any choice is sound); w(v)^2 = sum coef^2 w(child)^2 makes
    # the levels of an FFT network orthogonal maps whatever the order in which sums and rotations are scheduled
    wt = {v: mpf(1) for v in level if level[v] == 0}
    for v in order:
        wt[v] = mp.sqrt(sum(c[1] * c[1] * wt[ch] * wt[ch] for ch, c in form[v].items()))
        if wt[v] == 0:
            raise NoVerdict('a stage is identically zero')
    # last level at which each variable is read; outputs live to the end
    lastuse = {}
    for v, d in form.items():
        for ch in d:
            lastuse[ch] = max(lastuse.get(ch, 0), level[v])
    for v in outs:
        lastuse[v] = nlev + 1
    bylev = {}
    for v in form:
        bylev.setdefault(level[v], []).append(v)
    r = mpf(0)
    per = []
    for l in range(1, nlev + 1):
        new = bylev.get(l, [])
        # kept variables: defined before l, still needed after l (an identity block: S = sigma = 1)
        kept = any(level[v] < l and lastuse.get(v, 0) > l for v in level)
        parent = {}

        def find(x):
            while parent.get(x, x) != x:
                parent[x] = parent.get(parent[x], parent[x])
                x = parent[x]
            return x

        for k in new:
            for a in form[k]:
                ra, rk = find(('a', a)), find(('o', k))
                if ra != rk:
                    parent[ra] = rk
        blocks = {}
        for k in new:
            blocks.setdefault(find(('o', k)), []).append(k)
        S = mpf(1) if kept else None
        sg = mpf(1) if kept else None
        t = e = mpf(0)
        cache = {}
        for bouts in blocks.values():
            ins = sorted({a for k in bouts for a in form[k]}, key=id)
            # an input that stays alive after this level is also kept: its identity row belongs to the block's map
            extra = [a for a in ins if lastuse.get(a, 0) > l]
            rows = list(bouts) + [('keep', a) for a in extra]
            if len(rows) < len(ins):
                from .values import fmt
                raise NoVerdict('level %d: a block maps %d values to %d values: inputs %s ; outputs %s' % (
                    l, len(ins), len(rows), [fmt(a)[:70] for a in ins], [fmt(k)[:150] for k in bouts]))
            idx = {a: i for i, a in enumerate(ins)}
            sig = (tuple(tuple(sorted((idx[a], c[0], wt[a] / wt[k], tuple(sorted(c[2].items()))) for a, c in form[k].items()))
                         for k in bouts), tuple(idx[a] for a in extra))
            hit = cache.get(sig)
            if hit is None:
                Bs, Be, E = {}, {}, {}
                for k in bouts:
                    for a, c in form[k].items():
                        sc = wt[a] / wt[k]
                        Bs[(k, a)] = c[0] * sc
                        Be[(k, a)] = c[1] * sc
                        E[(k, a)] = sum(ab * gamma(dep) for dep, ab in c[2].items()) * sc
                for a in extra:
                    Bs[(('keep', a), a)] = mpf(1)
                    Be[(('keep', a), a)] = mpf(1)
                smax, smin = norm2(rows, ins, Be)
                if smin is None:
                    raise NoVerdict('level %d: singular values of a block not obtained' % l)
                tn, _ = norm2(rows, ins, {kk: Bs[kk] - Be[kk] for kk in Bs})
                en, _ = norm2(rows, ins, E) if E else (mpf(0), None)
                hit = (smax, smin, tn, en)
                cache[sig] = hit
            smax, smin, tn, en = hit
            S = smax if S is None else max(S, smax)
            sg = smin if sg is None else min(sg, smin)
            t, e = max(t, tn), max(e, en)
        if not sg:
            raise NoVerdict('level %d is singular' % l)
        r = (S / sg) * r + ((t + e) / sg) * (1 + r)
        per.append({'level': l, 'blocks': len(blocks), 'block_size': max([len(b) for b in blocks.values()] or [0]),
                    'rounding': float(e / sg / U), 'twiddle': float(t / sg / U), 'cond': float(S / sg)})
    wo = [wt[v] for v in outs]
    spread = max(wo) / min(wo)
    return {'levels': nlev, 'bound_in_u': float(r * spread / U), 'per_level': per, 'worst_constant_error_in_u': float(F.worst_const),
            'output_weight_spread': float(spread)}
