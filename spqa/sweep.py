"""spqa.sweep — run the module-level API contract over the shape box and turn findings into obligations."""
from collections import defaultdict

from .apicheck import ApiBox, check_run, shapes_for
from .build import AnalysisBroken
from .contract import API, NTT120_FUNCS
from .harness import FFT64, NTT120
from .machine import Runaway
from .vals import NeedEnum, Unsupported

CLAUSES = ['loop-bound-wraps', 'aborts-in-domain', 'unknown-access', 'read-outside-declared-extent',
           'write-outside-declared-extent', 'writes-source-operand', 'writes-table', 'writes-global',
           'frees-caller-memory', 'table-read-out-of-bounds', 'heap-out-of-bounds', 'output-not-fully-written',
           'read-before-write', 'alignment-dependent-path', 'narrow-overflow']


def sweep_api(lib, tier, names=None, ordered=True, want=None, aliasing=False, collect=None, cpus=('accel', 'generic')):
    """returns dict (fn, module, cpu) -> {'runs': n, 'findings': {clause: [finding,...]}, 'broken': [...]}"""
    box = ApiBox(lib)
    res = {}
    for name in (names or list(API)):
        spec = API[name]
        mods = [FFT64]
        if name in NTT120_FUNCS:
            mods.append(NTT120)
        alias_list = [None]
        if aliasing:
            alias_list = list(spec.get('alias', []))
        for mtype in mods:
            for cpu in cpus:
                if mtype == NTT120 and cpu != 'accel':
                    continue  # NTT120 modules have no generic kernels (slots stay null): listed as informational
                for al in alias_list:
                    if al is not None and mtype == NTT120 and 'alias_modules' in spec and 'ntt120' not in spec['alias_modules']:
                        continue
                    key = (name, 'fft64' if mtype == FFT64 else 'ntt120', cpu, al)
                    rec = res.setdefault(key, {'runs': 0, 'findings': defaultdict(list), 'broken': [], 'events': 0})
                    for sh in shapes_for(name, tier, al):
                        modes = [False, True] if ordered else [False]
                        for exp in modes:
                            try:
                                run = box.instantiate(name, sh, cpu, mtype, alias=al, expand=exp)
                            except (Unsupported, NeedEnum) as e:
                                rec['broken'].append('%s %s: %s' % (name, sh, e))
                                continue
                            rec['runs'] += 1
                            rec['events'] += len(run.events)
                            if collect is not None:
                                collect(run, exp)
                            for fd in check_run(run, ordered=exp):
                                if want is None or fd['clause'] in want:
                                    if len(rec['findings'][fd['clause']]) < 5:
                                        rec['findings'][fd['clause']].append(fd)
                                    else:
                                        rec['findings'][fd['clause']].append(None)
    return res
