"""spqa.build — regenerate the compilation database from /repo's working tree, compile every C unit
to canonical LLVM IR, dump it to JSON with tools/irdump.  Results are cached under /verif/.cache keyed
by a content hash of the library sources, so that the per-property checks share one build.
Nothing from /repo is executed: the sources are only compiled to IR."""
import hashlib
import json
import os
import shutil
import subprocess
import sys
import tempfile
import time
from concurrent.futures import ThreadPoolExecutor

VERIF = os.path.dirname(os.path.dirname(os.path.abspath(__file__)))
REPO = os.environ.get('SPQA_REPO', '/repo')
CACHE = os.path.join(VERIF, '.cache')
IRDUMP = os.path.join(VERIF, 'tools', 'irdump')
PASSES = 'sroa,early-cse,simplifycfg,instcombine,loop-simplify,lcssa'
CLANG = 'clang-14'
OPT = 'opt-14'


class AnalysisBroken(Exception):
    """exit 2: the analysis could not be carried out (never a pass, never a violation)"""


def tree_hash(repo=REPO):
    h = hashlib.sha256()
    files = []
    for root, dirs, fs in os.walk(os.path.join(repo, 'spqlios')):
        dirs.sort()
        for f in sorted(fs):
            files.append(os.path.join(root, f))
    files.append(os.path.join(repo, 'CMakeLists.txt'))
    for p in files:
        h.update(os.path.relpath(p, repo).encode())
        try:
            with open(p, 'rb') as fh:
                h.update(fh.read())
        except OSError:
            h.update(b'<missing>')
    # the tool chain pieces that shape the IR
    for p in (IRDUMP, os.path.join(VERIF, 'tools', 'irdump.cc'), os.path.abspath(__file__)):
        try:
            with open(p, 'rb') as fh:
                h.update(hashlib.sha256(fh.read()).digest())
        except OSError:
            pass
    return h.hexdigest()[:24]


def _compile_db(repo, scratch):
    b = os.path.join(scratch, 'cmake')
    r = subprocess.run(['cmake', '-G', 'Ninja', '-S', repo, '-B', b, '-DENABLE_TESTING=OFF', '-DCMAKE_BUILD_TYPE=Release',
                        '-DCMAKE_C_COMPILER=' + CLANG, '-DCMAKE_ASM_COMPILER=' + CLANG,
                        '-DCMAKE_EXPORT_COMPILE_COMMANDS=ON'],
                       stdout=subprocess.PIPE, stderr=subprocess.STDOUT, text=True)
    if r.returncode != 0:
        raise AnalysisBroken('cmake configure failed:\n' + r.stdout[-3000:])
    db = json.load(open(os.path.join(b, 'compile_commands.json')))
    units = {}
    for e in db:
        f = e['file']
        if f in units:
            continue  # static + shared targets compile the same unit twice
        cmd = e.get('command') or ' '.join(e['arguments'])
        units[f] = cmd.split()
    return units


def _ir_flags(cmd):
    """keep the unit's own -D/-I/-m/-f flags; drop optimisation, output and warning flags"""
    out = []
    skip = False
    for a in cmd[1:]:
        if skip:
            skip = False
            continue
        if a in ('-o', '-MF', '-MT', '-MQ'):
            skip = True
            continue
        if a in ('-c', '-MD', '-MMD') or a.startswith('-O') or a.startswith('-W') or a.startswith('-g'):
            continue
        if a.endswith('.c') or a.endswith('.s') or a.endswith('.S') or a.endswith('.o'):
            continue
        out.append(a)
    return out


def _build_unit(args):
    src, flags, outdir, repo = args
    rel = os.path.relpath(src, os.path.join(repo, 'spqlios'))
    stem = rel.replace('/', '__')
    bc0 = os.path.join(outdir, stem + '.0.bc')
    bc1 = os.path.join(outdir, stem + '.bc')
    js = os.path.join(outdir, stem + '.json')
    c = [CLANG] + flags + ['-O0', '-Xclang', '-disable-O0-optnone', '-fwrapv', '-g', '-emit-llvm', '-c',
                           src, '-o', bc0]
    r = subprocess.run(c, stdout=subprocess.PIPE, stderr=subprocess.STDOUT, text=True)
    if r.returncode != 0:
        return rel, None, 'clang failed: ' + r.stdout[-2000:]
    r = subprocess.run([OPT, '-passes=' + PASSES, bc0, '-o', bc1], stdout=subprocess.PIPE, stderr=subprocess.STDOUT,
                       text=True)
    if r.returncode != 0:
        return rel, None, 'opt failed: ' + r.stdout[-2000:]
    r = subprocess.run([IRDUMP, bc1, js, rel], stdout=subprocess.PIPE, stderr=subprocess.STDOUT, text=True)
    if r.returncode != 0:
        return rel, None, 'irdump failed: ' + r.stdout[-2000:]
    os.unlink(bc0)
    return rel, js, None


def build(repo=REPO, verbose=True, keep_bc=True):
    """returns the cache directory holding units/*.json, units/*.bc, asm/*.s list and meta.json"""
    if not os.path.exists(IRDUMP):
        r = subprocess.run(['make', '-C', os.path.join(VERIF, 'tools')], stdout=subprocess.PIPE, stderr=subprocess.STDOUT,
                           text=True)
        if r.returncode != 0:
            raise AnalysisBroken('cannot build tools/irdump:\n' + r.stdout[-3000:])
    key = tree_hash(repo)
    d = os.path.join(CACHE, key)
    meta = os.path.join(d, 'meta.json')
    if os.path.exists(meta):
        try:
            os.utime(d, None)        # last use (the pruning below is least-recently-used)
        except OSError:
            pass
        return d
    os.makedirs(CACHE, exist_ok=True)
    # prune old cache entries (disk is limited): least recently used first, never one used in the last two hours (checks
    # of several trees may run concurrently and read their entry for a long time), keep at least the 12 most recent
    now = time.time()
    olds = []
    for o in os.listdir(CACHE):
        if o == key:
            continue
        try:
            olds.append((os.path.getmtime(os.path.join(CACHE, o)), o))
        except OSError:
            pass
    olds.sort()
    for mt, old in olds[:-12] if len(olds) > 12 else []:
        if now - mt > 7200:
            shutil.rmtree(os.path.join(CACHE, old), ignore_errors=True)
    scratch = tempfile.mkdtemp(prefix='spqa-build-')
    tmpd = tempfile.mkdtemp(prefix='spqa-units-', dir=CACHE)
    try:
        units = _compile_db(repo, scratch)
        cunits = {f: c for f, c in units.items() if f.endswith('.c')}
        asm = sorted(os.path.relpath(f, os.path.join(repo, 'spqlios')) for f in units if f.endswith('.s') or f.endswith('.S'))
        jobs = [(f, _ir_flags(c), tmpd, repo) for f, c in sorted(cunits.items())]
        with ThreadPoolExecutor(max_workers=16) as ex:
            res = list(ex.map(_build_unit, jobs))
        errs = [(u, e) for u, j, e in res if e]
        if errs:
            raise AnalysisBroken('IR build failed for %d unit(s): %s' % (len(errs), errs[0]))
        m = {'key': key, 'units': sorted(u for u, _, _ in res), 'asm': asm,
             'flags': {os.path.relpath(f, os.path.join(repo, 'spqlios')): _ir_flags(c) for f, c in units.items()},
             'passes': PASSES}
        json.dump(m, open(os.path.join(tmpd, 'meta.json'), 'w'), indent=1)
        if os.path.exists(os.path.join(d, 'meta.json')):
            pass                      # a concurrent run of the same tree finished first: keep its entry (it may be in use)
        else:
            if os.path.exists(d):
                shutil.rmtree(d, ignore_errors=True)
            try:
                os.rename(tmpd, d)
            except OSError:
                if not os.path.exists(os.path.join(d, 'meta.json')):
                    raise
        if verbose:
            print('[build] %d C units, %d asm units -> %s' % (len(cunits), len(asm), d), file=sys.stderr)
    finally:
        shutil.rmtree(scratch, ignore_errors=True)
        if os.path.exists(tmpd):
            shutil.rmtree(tmpd, ignore_errors=True)
    return d


if __name__ == '__main__':
    print(build())
