"""spqa.roles — role of every pointer parameter of the exported functions.

roles: 'table' (MODULE / *_PRECOMP: shared, read-only), 'in' (source operand), 'out' (written, previous
contents irrelevant), 'inout' (documented in-place / accumulate operand), 'scratch', 'ctor' (object under
construction), 'owned' (object being destroyed), 'cursor' (caller-local cell, e.g. double** omg)."""
import json
import os
import re

HERE = os.path.dirname(os.path.dirname(os.path.abspath(__file__)))
TABLE_TY = re.compile(r'MODULE|PRECOMP|precomp|module_info', re.I)


def derive_roles(f):
    da = f.d.get('dbgargs')
    if da is None or len(da) != len(f.args):
        return None
    roles = []
    for a, d in zip(f.args, da):
        if a['ty']['k'] != 'ptr':
            roles.append(None)
            continue
        ty, name = d['ty'], d['name']
        is_table = bool(TABLE_TY.search(ty))
        if re.match(r'(delete_|del_|q120_del)', f.name) or 'free' in f.name:
            roles.append('owned')
        elif is_table and d['constptr']:
            roles.append('table')
        elif is_table:
            roles.append('ctor' if (re.match(r'(init_|fill_|new_|q120_new)', f.name) or f.name.endswith('_precomp')) else 'table')
        elif d['constptr']:
            roles.append('in')
        elif re.match(r'(tmp|scratch)', name):
            roles.append('scratch')
        elif ty.endswith('**') or ty.endswith('** const'):
            roles.append('cursor')
        else:
            roles.append('out')
    return {'args': [d['name'] for d in da], 'roles': roles}


_roles = None


def load_roles():
    global _roles
    if _roles is None:
        _roles = json.load(open(os.path.join(HERE, 'tables', 'roles.json')))
    return _roles


def roles_of(f):
    """(roles list, 'table'|'derived') or (None, None)"""
    t = load_roles().get(f.name)
    if t is not None and len(t['roles']) == len(f.args):
        return t['roles'], 'table'
    r = derive_roles(f)
    if r is None:
        return None, None
    return r['roles'], 'derived'
