"""C10 — q120 products and layout conversions are exact modulo the 120-bit modulus.

Decided:
 W  no wrap in the layout conversions (q120_arithmetic_simple.c): E5 interval analysis of the value DAG of every
    conversion for arbitrary 64-bit / int64 / 32-bit inputs: x % (Q<<33) + y % (Q<<33) < 2^64, (x<<32) % q fits, the CRT
    sum stays below 2^127, and the centred lift b -> int128 returns a value in [-(Q-1)/2, (Q-1)/2] (interval of the result).
 P  products are congruent to sum_i x_i*y_i: the E4 expression of every output lane of the reference products (a*a, b*b,
    b*c) is rewritten to a polynomial over Z/q_k with the exact integer identities of bit splitting
    (and(t,2^k-1) = t - 2^k*(t>>k), 64-bit lane = low half + 2^32*high half); every split remainder must cancel modulo
    the lane's prime and the result must be exactly sum_i x_i*y_i (for the c layout under its defining relation
    y' = 2^32*y mod q).  The integer identities are valid because C04 shows that no intermediate wraps.
 Q  reference and AVX2 products are congruent modulo each prime: same rewriting applied to both, all five pairs, incl. the
    two-coefficient block forms.
 Z  ell = 0 writes an all-zero result; block extract/save are inverse copy maps (reported under C17).
Not decided: congruence claims of the conversions themselves (int64 -> b/c, b -> c, additions) and uniqueness of the
centred representative beyond its range."""
import os
import re
import subprocess

from .. import ctx
from ..build import REPO, AnalysisBroken
from ..equiv import final_state, has_unknown
from ..intervals import Intervals
from ..kernels import KERNELS, KBox
from ..modq import ModPoly
from ..report import Report
from ..values import Sym, fmt, sym
from ..vals import NeedEnum, Unsupported


def primes():
    r = subprocess.run(['clang-14', '-E', '-dM', '-I', os.path.join(REPO, 'spqlios'), os.path.join(REPO, 'spqlios/q120/q120_common.h')],
                       stdout=subprocess.PIPE, stderr=subprocess.STDOUT, text=True)
    qs = []
    for k in (1, 2, 3, 4):
        m = re.search(r'#define Q%d (.*)' % k, r.stdout)
        if not m:
            raise AnalysisBroken('Q%d not found' % k)
        expr = re.sub(r'(\d+)[uU][lL]*', r'\1', m.group(1))
        if not re.fullmatch(r'[0-9()<>*+\- ]+', expr):
            raise AnalysisBroken('unexpected prime definition: ' + expr)
        qs.append(int(eval(expr)))
    return qs


def conversions(L, R, qs, tier):
    K = KERNELS('quick')
    box = KBox(L)
    Q = qs[0] * qs[1] * qs[2] * qs[3]
    n = 0
    for name in ('q120_add_bbb_simple', 'q120_add_ccc_simple', 'q120_c_from_b_simple', 'q120_b_from_znx64_simple',
                 'q120_c_from_znx64_simple', 'q120_b_to_znx128_simple'):
        bad = None
        for nn in (1, 2):
            try:
                r = box.instantiate(name, K[name], {'nn': nn}, 'accel', expand='values')
            except (Unsupported, NeedEnum) as e:
                R.broke('%s: %s' % (name, e))
                continue
            if r.status != 'ok':
                bad = bad or 'call %s' % (r.status,)
                continue
            st = final_state(r, ('out',)).get('res', {})
            signed_in = name in ('q120_b_from_znx64_simple', 'q120_c_from_znx64_simple')

            def atom(nm, off, size):
                if signed_in and nm == 'x':
                    return (-(1 << 63), (1 << 63) - 1)
                return (0, (1 << (8 * size)) - 1)

            I = Intervals(atom, fmt)
            vals = [v for _, (s, v) in sorted(st.items())]
            ivs = I.ev_all(vals)
            n += len(I.memo)
            if I.findings:
                bad = bad or repr(I.findings[0])
            if name == 'q120_b_to_znx128_simple':
                for (off, (s, v)), iv in zip(sorted(st.items()), ivs):
                    if iv is None or iv[0] < -((Q - 1) // 2) or iv[1] > (Q - 1) // 2:
                        bad = bad or 'lifted value range %s is not the centred range +-(Q-1)/2' % (iv,)
        if bad:
            R.ob('conversion-has-no-wrapping-intermediate', name, 'refuted', detail=bad, key='%s:wrap' % name)
        else:
            R.ob('conversion-has-no-wrapping-intermediate', name, 'holds')
    return n


def conversion_congruence(L, R, qs):
    """every stored word of the layout conversions / additions / CRT lift is congruent to its specification modulo the
    lane's prime, for every input word (sign cases and wrap-free readings by bisection, spqa/congr.py)"""
    from ..congr import decide, word
    K = KERNELS('quick')
    box = KBox(L)
    n = 0
    Q = qs[0] * qs[1] * qs[2] * qs[3]
    for name in ('q120_add_bbb_simple', 'q120_add_ccc_simple', 'q120_c_from_b_simple', 'q120_b_from_znx64_simple',
                 'q120_c_from_znx64_simple', 'q120_b_to_znx128_simple'):
        try:
            r = box.instantiate(name, K[name], {'nn': 2}, 'accel', expand='values')
        except (Unsupported, NeedEnum) as e:
            R.broke('%s: %s' % (name, e))
            continue
        if r.status != 'ok':
            R.ob('conversion-is-congruent-to-its-specification', name, 'refuted', detail='call %s' % (r.status,), key='%s:congruence' % name)
            continue
        st = final_state(r, ('out',)).get('res', {})
        bad = unk = None
        for off, (size, v) in sorted(st.items()):
            jobs = []      # (prime index, want builder, atoms, out_bits, out_signed)
            if name == 'q120_add_bbb_simple':
                k = (off // 8) % 4
                A, B = ('x', off, 8), ('y', off, 8)
                jobs.append((k, lambda mp, c, A=A, B=B: mp.add(word(mp, A, c), word(mp, B, c)), {A: False, B: False}, 64, False))
            elif name == 'q120_add_ccc_simple':
                k = (off // 8) % 4
                A, B = ('x', off, 4), ('y', off, 4)
                jobs.append((k, lambda mp, c, A=A, B=B: mp.add(word(mp, A, c), word(mp, B, c)), {A: False, B: False}, 32, False))
            elif name in ('q120_c_from_b_simple', 'q120_c_from_znx64_simple'):
                k = (off // 8) % 4
                j = off // 32
                signed = name.endswith('znx64_simple')
                A = ('x', 8 * j, 8) if signed else ('x', 32 * j + 8 * k, 8)
                coef = 1 if off % 8 == 0 else (1 << 32)
                jobs.append((k, lambda mp, c, A=A, coef=coef: word(mp, A, c, coef), {A: signed}, 32, False))
            elif name == 'q120_b_from_znx64_simple':
                k = (off // 8) % 4
                A = ('x', 8 * (off // 32), 8)
                jobs.append((k, lambda mp, c, A=A: word(mp, A, c), {A: True}, 64, False))
            else:
                j = off // 16
                for k in range(4):
                    A = ('x', 32 * j + 8 * k, 8)
                    jobs.append((k, lambda mp, c, A=A: word(mp, A, c), {('x', 32 * j + 8 * kk, 8): False for kk in range(4)}, 128, True))
            expect_size = 16 if name.endswith('znx128_simple') else (4 if '_c' in name.replace('q120_', '_') and not name.startswith('q120_b_') else 8)
            if name == 'q120_add_ccc_simple' or name.startswith('q120_c_from'):
                expect_size = 4
            if size != expect_size or v is None:
                bad = bad or 'res+%d written with %d bytes' % (off, size)
                continue
            if expect_size == 4 and isinstance(v, Sym):
                # c layout: the stored words are reduced representatives
                k0 = (off // 8) % 4
                Ic = Intervals(lambda nm, o, sz: (0, (1 << (8 * sz)) - 1), fmt)
                rg = Ic.ev_all([v])[0]
                if rg is None or rg[0] < 0 or rg[1] >= qs[k0]:
                    bad = bad or 'res+%d is not known to be reduced modulo q%d (range %r)' % (off, k0 + 1, rg)
            for k, want, atoms, ob, osg in jobs:
                n += 1
                if not isinstance(v, Sym):
                    bad = bad or 'res+%d holds the constant %r' % (off, v)
                    continue
                status, detail = decide(v, qs[k], want, atoms, ob, osg)
                if status == 'refuted':
                    bad = bad or 'res+%d (prime %d): %s' % (off, k + 1, detail)
                elif status == 'unknown':
                    unk = unk or 'res+%d (prime %d): %s' % (off, k + 1, detail)
        if bad:
            R.ob('conversion-is-congruent-to-its-specification', name, 'refuted', detail=bad, key='%s:congruence' % name)
        elif unk:
            R.ob('conversion-is-congruent-to-its-specification', name, 'unknown', detail=unk)
        else:
            R.ob('conversion-is-congruent-to-its-specification', name, 'holds')
    return n


def _subst_zero(mp, p, zeros):
    """the polynomial with every input word of `zeros` (name, off, size) replaced by 0"""
    if not zeros:
        return p
    inv = {a: k for k, a in mp.atoms.items()}

    def dead(a):
        k = inv[a]
        if k[0] != 'in':
            return False
        return any(k[1] == z[0] and z[1] <= k[2] and k[2] + k[3] <= z[1] + z[2] for z in zeros)
    return {m: c for m, c in p.items() if not any(dead(a) for a in m)}


def lane_polys(L, box, K, name, ell, qs, mps, cpu='accel', zeros=None, run=None):
    r = run if run is not None else box.instantiate(name, K[name], {'ell': ell}, cpu, expand='values')
    if r.status != 'ok':
        return None, 'call %s' % (r.status,)
    st = final_state(r, ('out',)).get('res', {})
    out = {}
    roots = {}
    for off, (s, v) in sorted(st.items()):
        if s != 8:
            return None, 'res+%d written with %d bytes' % (off, s)
        roots[off] = v
    for k in range(4):
        offs = [o for o in roots if (o // 8) % 4 == k]
        ps = mps[k].of_many([roots[o] for o in offs])
        I = getattr(mps[k], 'I', None)
        for o, p in zip(offs, ps):
            out[o] = _subst_zero(mps[k], p, zeros)
            if I is not None and isinstance(roots[o], Sym) and not zeros:
                # the stored word is the unsigned lane: the wrap-free reading used by the congruence must be non-negative
                rg = I.ev_all([roots[o]])[0]
                if rg is None or rg[0] < 0:
                    return None, 'lane at res+%d: the wrap-free reading of the stored word may be negative (%r)' % (o, rg)
    return out, None


def products(L, R, qs, tier, ells=None, rename=None):
    K = KERNELS('quick')
    box = KBox(L)
    if ells is None:
        ells = [0, 1, 2, 3] if tier == 'quick' else [0, 1, 2, 3, 5, 8, 17]
    ncmp = 0
    pairs = [('q120_vec_mat1col_product_baa', 'a', 'a'), ('q120_vec_mat1col_product_bbb', 'b', 'b'),
             ('q120_vec_mat1col_product_bbc', 'b', 'c'), ('q120x2_vec_mat1col_product_bbc', 'b', 'c'),
             ('q120x2_vec_mat2cols_product_bbc', 'b', 'c')]
    for base, lx, ly in pairs:
        bad_def = bad_pair = bad_zero = None
        for ell in ells:
            # one polynomial ring per prime, shared by both implementations
            def mk(k):
                q = qs[k]
                holder = {}

                def assume(e):
                    mp = holder['mp']
                    if e[0] == 'in' and e[3] == 8:
                        lo = {(mp.atom(('in', e[1], e[2], 4)),): 1}
                        if lx == 'a' or (ly == 'a' and e[1] == 'y'):
                            # a layout: 64-bit words holding values < 2^32: the high half is zero
                            if e[1] in ('x', 'y'):
                                return lo
                        hi = mp.of(sym('in', e[1], e[2] + 4, 4))
                        return mp.add(lo, mp.scale(hi, 1 << 32))
                    if e[0] == 'in' and e[3] == 4 and ly == 'c' and e[1] == 'y' and (e[2] % 8) == 4:
                        # c layout: second word of each pair is 2^32 times the first, modulo the lane's prime
                        return mp.scale({(mp.atom(('in', e[1], e[2] - 4, 4)),): 1}, 1 << 32)
                    if e[0] == 'lshr' and e[3] == 32 and getattr(e[2], 'e', (None,))[0] == 'in' and e[2].e[3] == 8:
                        t = e[2].e
                        if lx == 'a' and t[1] in ('x', 'y'):
                            return {}
                        return mp.of(sym('in', t[1], t[2] + 4, 4))
                    return None

                def atom_range(nm, off, size):
                    if size == 8 and ((lx == 'a' and nm in ('x', 'y'))):
                        return (0, (1 << 32) - 1)
                    return (0, (1 << (8 * size)) - 1)

                I = Intervals(atom_range, fmt)

                def bound(t):
                    r_ = I.ev_all([t])[0]
                    return r_[1] if r_ is not None and r_[0] >= 0 else None

                mp = ModPoly(q, assume, bound)
                mp.I = I
                holder['mp'] = mp
                return mp

            mps = [mk(k) for k in range(4)]
            paths = None
            try:
                pr, err = lane_polys(L, box, K, base + '_ref', ell, qs, mps)
                # an accelerated kernel that branches on data values is instantiated once per path (KBox): every path is
                # compared with the reference under the facts of its path condition (words known to be zero)
                from ..paths import describe, zero_words
                ra_ = box.instantiate(base + '_avx2', K[base + '_avx2'], {'ell': ell}, 'accel', expand='values')
                if getattr(ra_, 'paths', None) and len(ra_.paths) > 1:
                    paths = ra_.paths
                    pa, err2 = None, None
                else:
                    pa, err2 = lane_polys(L, box, K, base + '_avx2', ell, qs, mps, run=ra_)
            except (Unsupported, NeedEnum) as e:
                R.broke('%s ell=%d: %s' % (base, ell, e))
                continue
            if paths is not None:
                for run_, log in paths:
                    zs = zero_words(log)
                    if zs is None:
                        R.broke('%s ell=%d: path condition not understood (%s)' % (base, ell, describe(log)))
                        continue
                    pa_, e2 = lane_polys(L, box, K, base + '_avx2', ell, qs, mps, zeros=zs, run=run_)
                    if e2:
                        bad_pair = bad_pair or (ell, 'on the path [%s]: %s' % (describe(log), e2))
                        continue
                    for o in sorted(pr):
                        k = (o // 8) % 4
                        ncmp += 1
                        want = _subst_zero(mps[k], pr[o], zs)
                        if pa_.get(o) != want:
                            if mps[k].undecided(pa_.get(o, {}), want):
                                R.broke('%s ell=%d lane at res+%d: contains an operation the congruence rewriting does not model' % (base, ell, o))
                            else:
                                bad_pair = bad_pair or (ell, 'on the path where the words %s are zero [%s], lane at res+%d: reference = %s ; '
                                                        'AVX2 = %s (mod q%d)' % (sorted(zs)[:4], describe(log), o, mps[k].show(want),
                                                                                 mps[k].show(pa_.get(o, {})), k + 1))
                pa, err2 = pr, None      # the pairwise loop below has nothing left to compare
            if err or err2:
                bad_pair = bad_pair or (ell, err or err2)
                continue
            if ell == 0:
                for o, p in list(pr.items()) + list(pa.items()):
                    if p:
                        bad_zero = bad_zero or (ell, 'res+%d is not zero for ell = 0' % o)
            for o in sorted(pr):
                k = (o // 8) % 4
                ncmp += 1
                if pa.get(o) != pr[o] and mps[k].undecided(pa.get(o, {}), pr[o]):
                    R.broke('%s ell=%d lane at res+%d: contains an operation the congruence rewriting does not model' % (base, ell, o))
                elif pa.get(o) != pr[o]:
                    bad_pair = bad_pair or (ell, 'lane at res+%d: reference = %s ; AVX2 = %s (mod q%d)' % (
                        o, mps[k].show(pr[o]), mps[k].show(pa.get(o, {})), k + 1))
            if base.startswith('q120_vec'):
                # definition: lane k = sum_i x[i][k] * y[i][k]
                for k in range(4):
                    mp = mps[k]
                    exp = {}
                    for i in range(ell):
                        if lx == 'a':
                            xa = mp.of(sym('in', 'x', 32 * i + 8 * k, 8))
                            ya = mp.of(sym('in', 'y', 32 * i + 8 * k, 8))
                        elif ly == 'b':
                            xa = mp.of(sym('in', 'x', 32 * i + 8 * k, 8))
                            ya = mp.of(sym('in', 'y', 32 * i + 8 * k, 8))
                        else:
                            xa = mp.of(sym('in', 'x', 32 * i + 8 * k, 8))
                            ya = {(mp.atom(('in', 'y', 32 * i + 8 * k, 4)),): 1}
                        exp = mp.add(exp, mp.mul(xa, ya))
                    ncmp += 1
                    if pr.get(8 * k) != exp and mp.undecided(pr.get(8 * k, {})):
                        R.broke('%s ell=%d lane %d: contains an operation the congruence rewriting does not model' % (base, ell, k))
                    elif pr.get(8 * k) != exp:
                        bad_def = bad_def or (ell, 'reference lane %d = %s, expected sum x_i*y_i = %s (mod q%d)' % (
                            k, mp.show(pr.get(8 * k, {})), mp.show(exp), k + 1))
        for rule, bad, key in (('reference-product-is-congruent-to-the-dot-product', bad_def, 'definition'),
                               ('avx2-product-is-congruent-to-the-reference', bad_pair, 'pair'),
                               ('empty-product-is-zero', bad_zero, 'zero')):
            if rule.startswith('reference') and not base.startswith('q120_vec'):
                continue
            if rename is not None:
                if rule not in rename:
                    continue
                rule = rename[rule]
            if bad:
                R.ob(rule, base, 'refuted', detail='ell=%d: %s' % bad, key='%s:%s' % (base, key), witness={'ell': bad[0]})
            else:
                R.ob(rule, base, 'holds', detail='ell in %s' % ells)
    return ncmp


def run(tier):
    R = Report('C10', tier)
    L = ctx.lib()
    qs = primes()
    R.extra['primes'] = qs
    n1 = conversions(L, R, qs, tier)
    n2 = products(L, R, qs, tier)
    n3 = conversion_congruence(L, R, qs)
    R.floor('stored words of the conversions decided modulo their prime', n3, 60)
    R.evaluations = n1 + n2 + n3
    R.floor('expression nodes of the conversions given an interval', n1, 200)
    R.floor('lanes compared modulo their prime', n2, 150)
    R.rules.append('obligation = (clause, function | product family)')
    R.assumptions += ['bit-splitting identities are integer identities; they apply because no intermediate wraps (C04)',
                      'c-layout operands satisfy their defining relation (second word = 2^32 * first word mod q); a-layout words are < 2^32',
                      'the centred lift is the unique representative because it is congruent modulo each prime (CRT) and lies in '
                      '+-(Q-1)/2']
    return R.finish('E5 intervals on the conversions; E4 expressions of the products rewritten to polynomials over Z/q_k with exact '
                    'splitting identities and compared with the dot product / between reference and AVX2.')
