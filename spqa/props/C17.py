"""C17 — block layouts and complex-vector kernels are faithful and mutually inverse.

Decided with E4 (symbolic evaluation of the kernels with abstract data; exact lane maps; real-polynomial normal forms):
 L  copy maps: extracting block b of a reim vector (single, contiguous rows, strided rows) stores exactly the initial
    contents of elements 4b..4b+3, real parts then imaginary parts; saving a block is the inverse map; the q120x2
    extract/save likewise; reference and AVX variants.
 R  round trip: reim4_to_cplx(reim4_from_cplx(a)) stores a back for *all* m complex numbers, and from_cplx writes the
    documented 4-block layout (re0..re3, im0..im3 per block); both CPU paths, every m of the domain.
 A  arithmetic definition: the reim4 dot products with one and two columns, the pointwise multiply / multiply-accumulate
    on reim, reim4 and interleaved-complex vectors and the windowed convolution store, as polynomials over the reals,
    exactly (ar*br - ai*bi, ar*bi + ai*br) summed over the documented index set, for every length of the box incl. 0;
    reference, dispatched (both CPU paths) and the undispatched SSE / AVX-512 kernels.
Not decided: 'within a few units of rounding' as a number (rounding order is abstracted away by the normal form)."""
from fractions import Fraction

from .. import ctx
from ..equiv import final_state, has_unknown
from ..kernels import KERNELS, KBox, S
from ..report import Report
from ..values import Canon, fmt, sym
from ..vals import Aborted, NeedEnum, Unsupported


def IN(canon, name, off):
    return canon.real(sym('in', name, off, 8))


def padd(canon, *ps):
    r = {}
    for p in ps:
        r = canon._padd(r, p)
    return r


def cmul(canon, ar, ai, br, bi):
    re = canon._padd(canon._pmul(ar, br), canon._pmul(ai, bi), -1)
    im = canon._padd(canon._pmul(ar, bi), canon._pmul(ai, br))
    return re, im


class Checker:
    def __init__(self, L, R, tier):
        self.L, self.R, self.tier = L, R, tier
        self.K = KERNELS(tier)
        self.box = KBox(L)
        self.canon = Canon()
        self.ncmp = 0
        self.nruns = 0

    def run(self, name, sh, cpu):
        spec = self.K[name]
        r = self.box.instantiate(name, spec, sh, cpu, expand='values')
        self.nruns += 1
        return r

    def check(self, rule, name, cpu, doms, expect, nontrivial=True):
        """expect(sh) -> {buffer: {offset: polynomial | ('copy', bufname, off)}} ; compared with the stored expressions"""
        bad = None
        n = 0
        for sh in doms:
            try:
                r = self.run(name, sh, cpu)
            except (Unsupported, NeedEnum) as e:
                self.R.broke('%s %s: %s' % (name, sh, e))
                continue
            except Aborted:
                continue
            if r.status != 'ok':
                bad = bad or (sh, 'call %s' % (r.status,))
                continue
            st = final_state(r, ('out', 'inout'))
            exp = expect(sh)
            for buf, m in exp.items():
                got = st.get(buf, {})
                for off, p in m.items():
                    n += 1
                    g = got.get(off)
                    if g is None or g[0] != 8:
                        bad = bad or (sh, '`%s`+%d is not written as one 8-byte value (%s)' % (buf, off, g))
                        continue
                    if has_unknown(g[1]):
                        bad = bad or (sh, '`%s`+%d holds an uninterpreted value %s' % (buf, off, fmt(g[1])[:120]))
                        continue
                    try:
                        gp = self.canon.real(g[1])
                    except OverflowError:
                        bad = bad or (sh, 'expression too large')
                        continue
                    if gp != p:
                        bad = bad or (sh, '`%s`+%d = %s, expected %s' % (buf, off, fmt(g[1])[:200], self.show(p)))
                # nothing else may be written in that buffer
                extra = sorted(set(got) - set(m))
                if extra:
                    bad = bad or (sh, '`%s` also written at offsets %s' % (buf, extra[:4]))
        self.ncmp += n
        subj = '%s [%s]' % (name, cpu)
        if bad:
            self.R.ob(rule, subj, 'refuted', detail=bad[1], key='%s:%s' % (name, rule), witness=dict(bad[0], cpu=cpu))
        else:
            self.R.ob(rule, subj, 'holds', detail='%d stored values match the definition' % n, nontrivial=n > 0)

    def show(self, p):
        inv = {v: k for k, v in self.canon.atoms.items()}
        ts = []
        for m, c in list(p.items())[:6]:
            ts.append('%s*%s' % (c, '*'.join(str(inv.get(a, a))[:40] for a in m)))
        return ' + '.join(ts) + (' ...' if len(p) > 6 else '')


def run(tier):
    R = Report('C17', tier)
    L = ctx.lib()
    C = Checker(L, R, tier)
    cn = C.canon
    K = C.K
    cpus = ('accel', 'generic')
    # ---- L: copy maps ------------------------------------------------------------------------------------------
    def ext1(sh):
        m, b = sh['m'], sh['blk']
        return {'dst': {**{8 * j: IN(cn, 'src', 8 * (4 * b + j)) for j in range(4)},
                        **{32 + 8 * j: IN(cn, 'src', 8 * (m + 4 * b + j)) for j in range(4)}}}

    def save1(sh):
        m, b = sh['m'], sh['blk']
        return {'dst': {**{8 * (4 * b + j): IN(cn, 'src', 8 * j) for j in range(4)},
                        **{8 * (m + 4 * b + j): IN(cn, 'src', 32 + 8 * j) for j in range(4)}}}

    def extrows(stride):
        def f(sh):
            m, b = sh['m'], sh['blk']
            out = {}
            for r in range(sh['nrows']):
                base = r * stride(sh)
                for j in range(4):
                    out[64 * r + 8 * j] = IN(cn, 'src', base + 8 * (4 * b + j))
                    out[64 * r + 32 + 8 * j] = IN(cn, 'src', base + 8 * (m + 4 * b + j))
            return {'dst': out}
        return f

    for n in ('reim4_extract_1blk_from_reim_ref', 'reim4_extract_1blk_from_reim_avx'):
        C.check('block-extract-is-the-layout-map', n, 'accel', K[n]['dom'], ext1)
    for n in ('reim4_save_1blk_to_reim_ref', 'reim4_save_1blk_to_reim_avx'):
        C.check('block-save-is-the-inverse-map', n, 'accel', K[n]['dom'], save1)
    for n in ('reim4_extract_1blk_from_contiguous_reim_ref', 'reim4_extract_1blk_from_contiguous_reim_avx'):
        C.check('block-extract-is-the-layout-map', n, 'accel', K[n]['dom'], extrows(lambda s: 16 * s['m']))
    for n in ('reim4_extract_1blk_from_contiguous_reim_sl_ref', 'reim4_extract_1blk_from_contiguous_reim_sl_avx'):
        C.check('block-extract-is-the-layout-map', n, 'accel', K[n]['dom'], extrows(lambda s: 8 * s['sl']))
    # q120x2 blocks: 8 words at 64*blk
    C.check('block-extract-is-the-layout-map', 'q120x2_extract_1blk_from_q120b_ref', 'accel',
            K['q120x2_extract_1blk_from_q120b_ref']['dom'],
            lambda sh: {'dst': {8 * j: IN(cn, 'src', 64 * sh['blk'] + 8 * j) for j in range(8)}})
    C.check('block-extract-is-the-layout-map', 'q120x2_extract_1blk_from_contiguous_q120b_ref', 'accel',
            K['q120x2_extract_1blk_from_contiguous_q120b_ref']['dom'],
            lambda sh: {'dst': {64 * r + 8 * j: IN(cn, 'src', 32 * sh['nn'] * r + 64 * sh['blk'] + 8 * j)
                                for r in range(sh['nrows']) for j in range(8)}})
    C.check('block-save-is-the-inverse-map', 'q120x2b_save_1blk_to_q120b_ref', 'accel', K['q120x2b_save_1blk_to_q120b_ref']['dom'],
            lambda sh: {'dest': {64 * sh['blk'] + 8 * j: IN(cn, 'src', 8 * j) for j in range(8)}})
    # ---- R: cplx <-> reim4 ---------------------------------------------------------------------------------------
    lim = 64 if tier == 'quick' else 256

    def from_cplx(sh):
        m = sh['m']
        out = {}
        for b in range(m // 4):
            for j in range(4):
                out[8 * (8 * b + j)] = IN(cn, 'a', 16 * (4 * b + j))
                out[8 * (8 * b + 4 + j)] = IN(cn, 'a', 16 * (4 * b + j) + 8)
        return {'r': out}

    def to_cplx(sh):
        m = sh['m']
        out = {}
        for b in range(m // 4):
            for j in range(4):
                out[16 * (4 * b + j)] = IN(cn, 'a', 8 * (8 * b + j))
                out[16 * (4 * b + j) + 8] = IN(cn, 'a', 8 * (8 * b + 4 + j))
        return {'r': out}

    def copy_map(name, sh, cpu):
        """{out offset: in offset} if the kernel is a pure copy of 8-byte values of `a` into `r`, else a string"""
        r = C.run(name, sh, cpu)
        if r.status != 'ok':
            return 'call %s' % (r.status,)
        st = final_state(r, ('out',)).get('r', {})
        mp = {}
        for off, (sz, v) in st.items():
            e = getattr(v, 'e', None)
            if sz != 8 or e is None or e[0] != 'in' or e[1] != 'a' or e[3] != 8:
                return '`r`+%d holds %s, not a copied input value' % (off, fmt(v)[:80])
            mp[off] = e[2]
        return mp

    for cpu in cpus:
        bad_f = bad_t = bad_rt = None
        n = 0
        for sh in [d for d in K['reim4_from_cplx']['dom'] if d['m'] <= lim]:
            m = sh['m']
            try:
                F = copy_map('reim4_from_cplx', sh, cpu)
                T = copy_map('reim4_to_cplx', sh, cpu)
            except (Unsupported, NeedEnum) as e:
                R.broke('reim4 cplx conversion %s: %s' % (sh, e))
                continue
            full = set(range(0, 16 * m, 8))
            if isinstance(F, str) or set(F) != full or set(F.values()) != full:
                bad_f = bad_f or (sh, F if isinstance(F, str) else 'from_cplx is not a bijection of the %d numbers: writes %d values, '
                                  'reads %d distinct inputs' % (2 * m, len(F), len(set(F.values()))))
            if isinstance(T, str) or set(T) != full or set(T.values()) != full:
                bad_t = bad_t or (sh, T if isinstance(T, str) else 'to_cplx is not a bijection of the %d numbers: writes %d values, '
                                  'reads %d distinct inputs' % (2 * m, len(T), len(set(T.values()))))
            if not isinstance(F, str) and not isinstance(T, str):
                # to_cplx reads the reim4 vector at T[off]; that location was filled by from_cplx with input F[T[off]]
                for off in sorted(full):
                    n += 1
                    if T.get(off) is None or F.get(T[off]) != off:
                        bad_rt = bad_rt or (sh, 'number at byte %d comes back from byte %s' % (off, F.get(T.get(off))))
                        break
                # real and imaginary parts of 4 consecutive numbers go to one 64-byte block, 4 reals then 4 imaginaries
                for b in range(m // 4):
                    re = sorted(F[64 * b + 8 * j] for j in range(4))
                    im = sorted(F[64 * b + 32 + 8 * j] for j in range(4))
                    if re != [16 * (4 * b + j) for j in range(4)] or im != [16 * (4 * b + j) + 8 for j in range(4)]:
                        bad_f = bad_f or (sh, 'block %d of the reim4 vector does not hold the real parts then the imaginary parts of '
                                          'numbers %d..%d' % (b, 4 * b, 4 * b + 3))
        C.ncmp += n
        for rule, bad in (('cplx-to-reim4-is-a-faithful-block-layout-for-all-m', bad_f), ('reim4-to-cplx-covers-all-m', bad_t),
                          ('cplx-reim4-round-trip-is-the-identity', bad_rt)):
            subj = 'reim4_from_cplx/reim4_to_cplx [%s]' % cpu
            if bad:
                R.ob(rule, subj, 'refuted', detail=bad[1], key='reim4_cplx:%s' % rule, witness=dict(bad[0], cpu=cpu))
            else:
                R.ob(rule, subj, 'holds', detail='%d numbers traced' % n)
    # ---- A: arithmetic definitions ---------------------------------------------------------------------------------
    def mat1col(sh):
        n = sh['nrows']
        out = {}
        for j in range(4):
            re, im = {}, {}
            for i in range(n):
                r_, i_ = cmul(cn, IN(cn, 'u', 64 * i + 8 * j), IN(cn, 'u', 64 * i + 32 + 8 * j), IN(cn, 'v', 64 * i + 8 * j),
                              IN(cn, 'v', 64 * i + 32 + 8 * j))
                re, im = cn._padd(re, r_), cn._padd(im, i_)
            out[8 * j], out[32 + 8 * j] = re, im
        return {'dst': out}

    def mat2cols(sh):
        n = sh['nrows']
        out = {}
        for c in range(2):
            for j in range(4):
                re, im = {}, {}
                for i in range(n):
                    r_, i_ = cmul(cn, IN(cn, 'u', 64 * i + 8 * j), IN(cn, 'u', 64 * i + 32 + 8 * j),
                                  IN(cn, 'v', 128 * i + 64 * c + 8 * j), IN(cn, 'v', 128 * i + 64 * c + 32 + 8 * j))
                    re, im = cn._padd(re, r_), cn._padd(im, i_)
                out[64 * c + 8 * j], out[64 * c + 32 + 8 * j] = re, im
        return {'dst': out}

    for n in ('reim4_vec_mat1col_product_ref', 'reim4_vec_mat1col_product_avx2'):
        C.check('dot-product-is-the-complex-definition', n, 'accel', K[n]['dom'], mat1col)
    for n in ('reim4_vec_mat2cols_product_ref', 'reim4_vec_mat2cols_product_avx2'):
        C.check('dot-product-is-the-complex-definition', n, 'accel', K[n]['dom'], mat2cols)

    def pointwise(layout, acc):
        def f(sh):
            m = sh['m']
            out = {}
            for i in range(m):
                if layout == 'reim':
                    ro, io = 8 * i, 8 * (m + i)
                elif layout == 'cplx':
                    ro, io = 16 * i, 16 * i + 8
                else:  # reim4: block b = i // 4, lane j
                    b, j = divmod(i, 4)
                    ro, io = 8 * (8 * b + j), 8 * (8 * b + 4 + j)
                re, im = cmul(cn, IN(cn, 'a', ro), IN(cn, 'a', io), IN(cn, 'b', ro), IN(cn, 'b', io))
                if acc:
                    re, im = cn._padd(re, IN(cn, 'r', ro)), cn._padd(im, IN(cn, 'r', io))
                out[ro], out[io] = re, im
            return {'r': out}
        return f

    vlim = 32 if tier == 'quick' else 128
    for name, layout, acc in (('reim_fftvec_mul', 'reim', 0), ('reim_fftvec_addmul', 'reim', 1), ('cplx_fftvec_mul', 'cplx', 0),
                              ('cplx_fftvec_addmul', 'cplx', 1), ('reim4_fftvec_mul', 'reim4', 0), ('reim4_fftvec_addmul', 'reim4', 1)):
        for cpu in cpus:
            C.check('pointwise-product-is-the-complex-definition', name, cpu, [d for d in K[name]['dom'] if d['m'] <= vlim],
                    pointwise(layout, acc))
    for name, acc in (('cplx_fftvec_mul_ref', 0), ('cplx_fftvec_mul_fma', 0), ('cplx_fftvec_addmul_ref', 1),
                      ('cplx_fftvec_addmul_fma', 1), ('cplx_fftvec_addmul_sse', 1), ('cplx_fftvec_addmul_avx512', 1)):
        C.check('pointwise-product-is-the-complex-definition', name, 'accel', [d for d in K[name]['dom'] if d['m'] <= vlim],
                pointwise('cplx', acc))

    def conv(ncoef_of, base_k):
        def f(sh):
            out = {}
            for q in range(ncoef_of(sh)):
                k = base_k(sh) + q
                for j in range(4):
                    re, im = {}, {}
                    if k < sh['sizea'] + sh['sizeb']:
                        for jj in range(max(0, k + 1 - sh['sizea']), min(sh['sizeb'], k + 1)):
                            ii = k - jj
                            r_, i_ = cmul(cn, IN(cn, 'a', 64 * ii + 8 * j), IN(cn, 'a', 64 * ii + 32 + 8 * j),
                                          IN(cn, 'b', 64 * jj + 8 * j), IN(cn, 'b', 64 * jj + 32 + 8 * j))
                            re, im = cn._padd(re, r_), cn._padd(im, i_)
                    out[64 * q + 8 * j], out[64 * q + 32 + 8 * j] = re, im
            return {'dest': out}
        return f

    C.check('convolution-window-is-the-definition', 'reim4_convolution_1coeff_ref', 'accel', K['reim4_convolution_1coeff_ref']['dom'],
            conv(lambda s: 1, lambda s: s['k']))
    C.check('convolution-window-is-the-definition', 'reim4_convolution_2coeff_ref', 'accel', K['reim4_convolution_2coeff_ref']['dom'],
            conv(lambda s: 2, lambda s: s['k']))
    C.check('convolution-window-is-the-definition', 'reim4_convolution_ref', 'accel', K['reim4_convolution_ref']['dom'],
            conv(lambda s: s['dest_size'], lambda s: s['dest_offset']))
    R.evaluations = C.nruns
    R.floor('kernel instantiations in value mode', C.nruns, 450)
    R.floor('stored values compared with the definition', C.ncmp, 7000)
    R.extra['values_compared'] = C.ncmp
    R.rules.append('evaluation = one kernel instantiation in value mode; obligation = (clause, kernel, cpu path); every stored 8-byte '
                   'value of the outputs is compared with the definition as a polynomial over the reals (exactly for copies)')
    R.assumptions += ['floating-point addition/multiplication read as exact real arithmetic (rounding order abstracted)',
                      'reim4 kernels: m >= 4; block index < m/4 (documented domain)']
    return R.finish('E4: symbolic lane-wise evaluation of the kernels; stored expressions normalised and compared with the layout '
                    'maps / complex-arithmetic definitions built by the check.')
