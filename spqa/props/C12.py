"""C12 — shared modules and precomputed tables are safe for concurrent use.

Sufficient condition, decided soundly on provenance (every shape, path, dispatch candidate):
 R1  every exported function that takes a MODULE / *_PRECOMP operand (role 'table'): its may-write and may-free
     sets contain no global and nothing reachable from the table operand, and it reads no mutable global that any
     library function writes.  Calls on disjoint data then share only read-only memory: no race, results
     independent of the interleaving.
 R2  *_simple functions: every write to their static table lies behind a test of that same table, on the
     'slot is empty' side of a plain null test (shared tables), so that after the documented warm-up call no path
     writes shared memory.  Thread-local tables are per thread.
Not decided: concurrent *first* calls of a *_simple function (documented as unsupported)."""
from .. import ctx
from ..caches import analyse_cache_functions
from ..report import Report
from ..roles import roles_of


def _gname(r):
    return r[2]


def rule1(L, E, R, prefix=''):
    n = 0
    written_globals = set()
    for f in L.functions.values():
        for r in E.summ[f.key].writes:
            if r[0] == 'glob':
                written_globals.add((r[1], r[2]))
    for f in sorted(L.exported(), key=lambda f: f.name):
        roles, src = roles_of(f)
        if roles is None or 'table' not in roles:
            continue
        S = E.summ[f.key]
        if S.always_aborts:
            continue
        n += 1
        subj = prefix + f.name
        gw = sorted({(r[1], r[2]) for r in S.writes if r[0] == 'glob'} | {(r[1], r[2]) for r in S.frees if r[0] == 'glob'})
        if gw:
            for g in gw:
                sites = []
                for r in S.writes:
                    if r[0] == 'glob' and (r[1], r[2]) == g:
                        sites += S.write_sites.get(r, [])[:3]
                R.ob('table-function-writes-no-global', subj, 'refuted',
                     detail='%s takes a shared table but may write static `%s`' % (f.name, g[1]),
                     key='%s:global-write:%s' % (f.name, g[1]), witness={'sites': sites}, loc=sites[0][1] if sites else f.loc)
        else:
            R.ob('table-function-writes-no-global', subj, 'holds')
        tw = []
        for j, ro in enumerate(roles):
            if ro != 'table':
                continue
            for d in (0, 1):
                if ('arg', j, d) in S.writes or ('arg', j, d) in S.frees:
                    tw.append((j, d, S.write_sites.get(('arg', j, d), [])[:3]))
        if tw:
            R.ob('table-operand-immutable', subj, 'refuted', detail='%s writes through its table operand' % f.name,
                 key='%s:table-write' % f.name, witness={'sites': [t[2] for t in tw]},
                 loc=(tw[0][2][0][1] if tw[0][2] else f.loc))
        else:
            R.ob('table-operand-immutable', subj, 'holds')
        gr = sorted({(r[1], r[2]) for r in S.reads if r[0] == 'glob'} & written_globals)
        if gr:
            R.ob('table-function-reads-no-mutable-global', subj, 'refuted',
                 detail='%s reads static `%s`, which library code writes' % (f.name, gr[0][1]),
                 key='%s:global-read:%s' % (f.name, gr[0][1]))
        else:
            R.ob('table-function-reads-no-mutable-global', subj, 'holds')
        if ('unknown',) in S.writes:
            R.ob('no-unknown-effects', subj, 'unknown', detail=str(S.unknown_calls[:3]))
    return n


def rule2(L, G, E, R, prefix=''):
    cs = analyse_cache_functions(L, G, E)
    n = 0
    for C in cs:
        subj = prefix + C.f.name
        n += 1
        gl = ','.join(sorted(g[1] for g in C.globals))
        if C.tls:
            R.ob('cache-is-thread-local', subj, 'holds', detail=gl)
            R.note('%s: thread-local cache %s (per thread, no sharing)' % (C.f.name, gl))
            continue
        if C.unguarded:
            i, g, how = C.unguarded[0]
            R.ob('cache-write-behind-empty-slot-test', subj, 'refuted',
                 detail='%s writes shared static %s without testing it first: %s' % (C.f.name, g[1], how),
                 key='%s:unguarded-cache-write' % C.f.name, loc=i.loc)
        elif C.problems:
            R.ob('cache-write-behind-empty-slot-test', subj, 'refuted',
                 detail='%s: %s' % (C.f.name, '; '.join(C.problems)), key='%s:cache-guard-shape' % C.f.name,
                 loc=C.guards[0][2] if C.guards else C.f.loc)
        else:
            R.ob('cache-write-behind-empty-slot-test', subj, 'holds', detail='guards at %s' % [g[2] for g in C.guards])
    return n, cs


def run(tier):
    R = Report('C12', tier)
    L, G, E = ctx.lib(), ctx.cg(), ctx.effects()
    if G.unresolved or G.escapes:
        R.broke('call graph incomplete: %d unresolved indirect calls, %d escaping function addresses' % (
            len(G.unresolved), len(G.escapes)))
    n1 = rule1(L, E, R)
    n2, cs = rule2(L, G, E, R)
    R.floor('exported functions taking a shared table', n1, 150)
    R.floor('cache (*_simple) functions', n2, 18)
    mg = [k for k, g in L.globals.items() if not g['const']]
    R.extra['mutable_globals'] = sorted('%s:%s%s' % (k[0], k[1], ' (thread-local)' if L.globals[k]['tls'] else '') for k in mg)
    # canaries
    FL, FG, FE = ctx.fixtures()
    FR = Report('C12-fixtures', tier)
    rule1(FL, FE, FR, 'fixture:')
    rule2(FL, FG, FE, FR, 'fixture:')
    fired = {(o['rule'], o['subject']) for o in FR.obligations if o['status'] == 'refuted'}
    for must in (('table-function-writes-no-global', 'fixture:fx_c12_write_static'),
                 ('table-operand-immutable', 'fixture:fx_c12_write_table_reach'),
                 ('cache-write-behind-empty-slot-test', 'fixture:fxc_unguarded_simple'),
                 ('cache-write-behind-empty-slot-test', 'fixture:fxc_refresh_simple')):
        if must not in fired:
            R.broke('canary did not fire: %s %s' % must)
    if ('cache-write-behind-empty-slot-test', 'fixture:fxc_underkeyed_simple') in fired:
        R.broke('negative control fired: fxc_underkeyed_simple has a proper empty-slot guard')
    R.extra['canaries_fired'] = sorted('%s %s' % x for x in fired)
    R.extra['functions_analysed'] = len(L.functions)
    R.rules.append('obligation = (rule, exported function); non-trivial = function has a body and does not always abort')
    R.assumptions += ['callers pass disjoint data buffers to concurrent calls (the property statement)',
                      'reim/cplx *_precomp_get_buffer hand out scratch inside the table allocation; transforms run on it write '
                      'through their data argument, which the header makes the caller\'s exclusive responsibility',
                      '__cpu_model is written once by the C runtime before main()']
    return R.finish('R1: E2 may-write/may-free/may-read sets by provenance (all dispatch candidates) intersected with globals and '
                    'with memory reachable from table operands; R2: dominance rule on every write to a function-local static '
                    'cache (writes only behind an empty-slot test of the same cache).')
