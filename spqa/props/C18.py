"""C18 — read-only operands are never modified.

Rule (sound over-approximation, decided on provenance so it holds for every shape, path, dispatch candidate
and regardless of aliasing among the other arguments): for every exported function f and every pointer
parameter j whose contract role is 'in' or 'table':  MayWrite(f) ∪ MayFree(f) contains neither the object
j points to nor anything reachable from it.  MayWrite is the E2 summary over the resolved call graph with
*all* candidates of every dispatch slot.  Documented exceptions come from the role table ('inout' for the
input of the overwrite variant of the inverse DFT)."""
from .. import ctx
from ..report import Report
from ..roles import roles_of


def check_library(L, E, R, prefix=''):
    n_fun = 0
    n_ob = 0
    for f in sorted(L.exported(), key=lambda f: f.name):
        roles, src = roles_of(f)
        if roles is None:
            continue
        S = E.summ[f.key]
        if S.always_aborts:
            continue
        n_fun += 1
        if src == 'derived':
            R.note('%s: roles derived from const qualifiers (not in the frozen table)' % f.name)
        for j, ro in enumerate(roles):
            if ro not in ('in', 'table'):
                continue
            n_ob += 1
            argname = f.d['dbgargs'][j]['name'] if f.d.get('dbgargs') else str(j)
            bad = []
            for d in (0, 1):
                r = ('arg', j, d)
                if r in S.writes:
                    bad.append(('writes ' + ('object' if d == 0 else 'memory reachable from'), S.write_sites.get(r, [])[:3]))
                if r in S.frees:
                    bad.append(('frees ' + ('object' if d == 0 else 'memory reachable from'), S.free_sites.get(r, [])[:3]))
            subj = prefix + f.name
            if bad:
                R.ob('source-operand-not-written', '%s(%s)' % (subj, argname), 'refuted',
                     detail='%s operand `%s` of %s: %s' % (ro, argname, f.name, '; '.join(b[0] for b in bad)),
                     key='%s:%s:written' % (f.name, argname), witness={'sites': [b[1] for b in bad]},
                     loc=(bad[0][1][0][1] if bad[0][1] else f.loc))
            else:
                R.ob('source-operand-not-written', '%s(%s)' % (subj, argname), 'holds')
        if ('unknown',) in S.writes:
            R.ob('no-unknown-effects', subj, 'unknown', detail='unmodelled effect: %s' % S.unknown_calls[:3])
    return n_fun, n_ob


def run(tier):
    R = Report('C18', tier)
    L, G, E = ctx.lib(), ctx.cg(), ctx.effects()
    if G.unresolved:
        R.broke('unresolved indirect calls: %s' % [(f.name, i.loc) for f, i, w in G.unresolved][:5])
    if G.escapes:
        R.broke('function addresses escape outside dispatch slots: %s' % [(x[2]) for x in G.escapes][:5])
    n_fun, n_ob = check_library(L, E, R)
    R.floor('exported functions with a role table', n_fun, 380)
    R.floor('read-only operands checked', n_ob, 480)
    # canaries
    FL, FG, FE = ctx.fixtures()
    FR = Report('C18-fixtures', tier)
    check_library(FL, FE, FR, prefix='fixture:')
    fired = {o['subject'] for o in FR.obligations if o['status'] == 'refuted'}
    silent = {o['subject'] for o in FR.obligations if o['status'] == 'holds'}
    for must in ('fixture:fx_c18_write_const_input(a)', 'fixture:fx_c12_write_table_reach(tables)',
                 'fixture:fx_c18_memcpy_into_input(a)'):
        if must not in fired:
            R.broke('canary did not fire: ' + must)
    if 'fixture:fx_c18_ok(a)' not in silent:
        R.broke('negative control fired: fx_c18_ok')
    R.extra['canaries_fired'] = sorted(fired)
    R.extra['functions_analysed'] = len(L.functions)
    R.extra['units'] = len(L.units)
    R.extra['indirect_call_sites_resolved'] = sum(1 for k, v in G.calls.items() for c in v if c[0].get('callee') is None)
    R.extra['dispatch_slots'] = len(G.slot_stores)
    R.rules.append('obligation = (exported function, read-only pointer parameter); non-trivial = the function has a body that '
                   'does not unconditionally abort')
    R.assumptions += ['distinct arguments with roles in/table/out are distinct allocations unless the contract allows aliasing',
                      'no pointer is forged from data (inttoptr only in the align-up idiom, followed through)',
                      'the four assembly kernels write only through their data arguments (checked by the asm scan in C07/C11)']
    return R.finish('E2 may-write/may-free by provenance over the dispatch-resolved call graph; an operand with role in/table '
                    'must not be in the set. Flow- and path-insensitive, hence valid for every shape and input.')
