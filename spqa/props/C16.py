"""C16 — pipelines of API calls compute the corresponding expression.

NOT decided: the value of any pipeline (numeric / algebraic facts).
Decided - the two structural conditions without which no pipeline can be right:
 D  dispatch completeness: every public wrapper of the module API is a pure forwarder - one indirect call through a
    slot of the module's function table with its own parameters in order, result returned unchanged; the functions
    stored in that slot carry the wrapper's name (fft64_/ntt120_ prefix, _ref/_avx suffix) and the wrapper's exact
    prototype; every slot a wrapper calls is filled for an FFT64 module under both CPU configurations (NTT120: the
    filled/empty slots are listed as informational).
 O  opaque layout agreement: every producer and consumer of VEC_ZNX_DFT / VEC_ZNX_BIG / SVP_PPOL addresses limb i at
    i*bytes_of_X(module,1) with the same width, shown as a data-dependence fact (E4 support sets, both CPU paths, both
    module types where the entry exists): the expressions stored in output limb i depend only on input limb i (and on the
    prepared scalar for svp_apply), together they use every coefficient of that limb, and limbs beyond the input are
    exact zeros.
 M  VMP_PMAT: the layout map derived from the producer and the consumer's dot product under it agree on a small box with
    one-column and odd-column matrices and both prepared layouts (the engine of C02; its full box is C02's).
 P  stage dependence: output limb i of every pipeline stage (22 operations: coefficient-space arithmetic, both
    normalizations, DFT/iDFT, big arithmetic, svp and vmp products) depends on every input limb the exact operation
    uses - limb i for limb-wise operations, all less significant limbs for the carry chains of the normalizations
    (including dropped limbs when a_size > res_size and the strided range variant), every row for the matrix products.
    A missing dependence is a sound refutation (a value that does not mention a limb cannot depend on it).
Consequence: an opaque object produced by one function is read by the next with the same limb geometry, and no stage
drops information that the exact expression needs."""
import re

from .. import ctx
from ..apicheck import ApiBox, shapes_for
from ..contract import API, NTT120_FUNCS
from ..equiv import final_state, has_unknown, support
from ..harness import Ctx, FFT64, NTT120
from ..report import Report
from ..trusted import TRUSTED
from ..vals import FnPtr, NeedEnum, Unsupported

WRAPPERS = sorted(list(API) + ['bytes_of_vec_znx_dft', 'bytes_of_vec_znx_big', 'bytes_of_svp_ppol', 'bytes_of_vmp_pmat',
                               'vec_znx_normalize_base2k_tmp_bytes', 'vec_znx_big_normalize_base2k_tmp_bytes',
                               'vec_znx_big_range_normalize_base2k_tmp_bytes', 'vec_znx_idft_tmp_bytes',
                               'znx_small_single_product_tmp_bytes', 'vmp_prepare_contiguous_tmp_bytes', 'vmp_apply_dft_tmp_bytes',
                               'vmp_apply_dft_to_dft_tmp_bytes'])


def root_name(n):
    n = re.sub(r'^(fft64_|ntt120_)', '', n)
    n = re.sub(r'(_tmp_bytes)?(_ref|_avx2|_avx)$', lambda m: (m.group(1) or ''), n)
    return n


def dispatch(L, G, R):
    n = 0
    slots = {}
    for w in WRAPPERS:
        f = L.fn(w)
        if f is None:
            R.broke('public wrapper %s vanished' % w)
            continue
        n += 1
        calls = [i for i in f.all_instrs() if i.op == 'call' and not i.get('intrinsic')]
        others = [i for i in f.all_instrs() if i.op in ('store',) or (i.op == 'call' and i.get('intrinsic') and not i['callee'].startswith('llvm.dbg'))]
        bad = None
        if len(calls) != 1 or calls[0].get('callee') is not None:
            bad = 'is not a single indirect call through the module table (%d calls)' % len(calls)
        elif others:
            bad = 'has side effects of its own (%s at %s)' % (others[0].op, others[0].loc)
        else:
            c = calls[0]
            info = [x for x in G.calls[f.key] if x[0].id == c.id][0]
            key = info[3]
            if key is None or key[0] != 'struct.module_virtual_functions_t':
                bad = 'calls through %r, not a slot of the module function table' % (key,)
            else:
                slots[w] = key[1]
                # own parameters in order
                ok = len(c.ops) == len(f.args) and all(o.get('k') == 'a' and o['v'] == j for j, o in enumerate(c.ops))
                if not ok:
                    # allow bitcasts of arguments
                    ok = len(c.ops) == len(f.args)
                    for j, o in enumerate(c.ops):
                        oo = o
                        while oo.get('k') == 'i' and f.instrs[oo['v']].op == 'bitcast':
                            oo = f.instrs[oo['v']].ops[0]
                        if not (oo.get('k') == 'a' and oo['v'] == j):
                            ok = False
                if not ok:
                    bad = 'does not forward its parameters in order'
                rets = [i for i in f.all_instrs() if i.op == 'ret']
                if not bad and f.ret.get('k') != 'void':
                    for r_ in rets:
                        if not (r_.ops and r_.ops[0].get('k') == 'i' and r_.ops[0]['v'] == c.id):
                            bad = 'does not return the result of the dispatched call'
                if not bad:
                    for tname in sorted(G.slot_stores.get(key, [])):
                        t = L.fn(tname)
                        if t is None:
                            bad = 'slot +%d holds %s, which has no definition' % (key[1], tname)
                        elif root_name(tname) != w:
                            bad = 'slot +%d holds %s, which is not an implementation of %s' % (key[1], tname, w)
                        elif [a['ty']['s'] for a in t.args] != [a['ty']['s'] for a in f.args] or t.ret['s'] != f.ret['s']:
                            bad = 'implementation %s has a different prototype' % t.name
                        elif t.d.get('dbgargs') and f.d.get('dbgargs') and [re.sub(r'\\bconst ', '', a['ty']) for a in t.d['dbgargs']] != [
                                re.sub(r'\\bconst ', '', a['ty']) for a in f.d['dbgargs']]:
                            bad = 'implementation %s declares different parameter types' % t.name
        if bad:
            R.ob('wrapper-forwards-to-its-own-slot', w, 'refuted', detail='%s %s' % (w, bad), key='%s:wrapper' % w, loc=f.loc)
        else:
            R.ob('wrapper-forwards-to-its-own-slot', w, 'holds')
    # slots filled
    for mtype, nm in ((FFT64, 'fft64'), (NTT120, 'ntt120')):
        for cpu in ('accel', 'generic'):
            c = Ctx(L, cpu=cpu, trusted=TRUSTED)
            mod = c.module(16, mtype)
            base = None
            filled = {}
            # offset of the function table inside the module object: smallest offset holding a function pointer
            fo = sorted(o for o, v in mod.obj.fields.items() if isinstance(v[1], FnPtr))
            if not fo:
                R.broke('module function table not found')
                continue
            base = fo[0] - min(slots.values()) if slots else fo[0]
            empty = []
            for w, so in sorted(slots.items()):
                v = mod.obj.fields.get(base + so)
                if not (v and isinstance(v[1], FnPtr)):
                    empty.append(w)
            if mtype == FFT64:
                if empty:
                    R.ob('slots-filled', 'FFT64 module [%s]' % cpu, 'refuted', detail='no implementation for %s' % empty[:5],
                         key='fft64:%s:empty-slots' % cpu)
                else:
                    R.ob('slots-filled', 'FFT64 module [%s]' % cpu, 'holds', detail='%d slots' % len(slots))
            else:
                R.note('NTT120 module [%s]: slots without implementation: %s' % (cpu, empty))
    return n


LIMBWISE = {
    # function: (output buffer, [(input buffer, 'limb'|'whole')])
    'vec_znx_dft': ('res', [('a', 'limb')]),
    'vec_znx_idft': ('res', [('a_dft', 'limb')]),
    'vec_znx_idft_tmp_a': ('res', [('a_dft', 'limb')]),
    'svp_apply_dft': ('res', [('a', 'limb'), ('ppol', 'whole')]),
    'svp_prepare': ('ppol', [('pol', 'whole')]),
}


def layout(L, R, tier):
    box = ApiBox(L)
    nruns = 0
    for name, (outn, ins) in LIMBWISE.items():
        mods = [FFT64] + ([NTT120] if name in NTT120_FUNCS else [])
        for mtype in mods:
            for cpu in (('accel', 'generic') if mtype == FFT64 else ('accel',)):
                bad = None
                shapes = [sh for sh in shapes_for(name, tier) if sh['N'] <= (16 if tier == 'quick' else 64)]
                for sh in shapes:
                    try:
                        r = box.instantiate(name, sh, cpu, mtype, expand='values')
                    except (Unsupported, NeedEnum) as e:
                        R.broke('%s %s: %s' % (name, sh, e))
                        continue
                    nruns += 1
                    if r.status != 'ok':
                        bad = bad or (sh, 'call %s' % (r.status,))
                        continue
                    out = r.bufs[outn]
                    st = final_state(r, ('out',)).get(outn, {})
                    nl = out.nlimbs if out.nlimbs is not None else 1
                    lb = out.limb if out.limb is not None else out.nbytes
                    limbin = [r.bufs[i] for i, k in ins if k == 'limb']
                    smin = min([nl] + [b.nlimbs for b in limbin]) if limbin else nl
                    for i in range(nl):
                        used = set()
                        for off, (sz, v) in st.items():
                            if not (i * lb <= off < (i + 1) * lb):
                                continue
                            if i >= smin:
                                if not ((isinstance(v, (int, float)) and v == 0)):
                                    bad = bad or (sh, 'limb %d of `%s` (beyond the input) holds %s instead of zero' % (i, outn, str(v)[:60]))
                                continue
                            caller = {b.name for b in r.bufs.values()}
                            for (bn, o, s) in support(v):
                                if bn not in caller:
                                    continue  # table memory (twiddles) - read-only, not part of the limb geometry
                                ok = False
                                for inn, kind in ins:
                                    b = r.bufs[inn]
                                    if bn != b.name:
                                        continue
                                    if kind == 'whole':
                                        ok = True
                                    else:
                                        lo = i * b.stride
                                        if lo <= o < lo + b.limb:
                                            ok = True
                                            used.add(o)
                                if not ok:
                                    bad = bad or (sh, 'limb %d of `%s` depends on `%s`+%d, which is not in limb %d of the input' % (
                                        i, outn, bn, o, i))
                        if i < smin and limbin:
                            b = limbin[0]
                            want = set(range(i * b.stride, i * b.stride + b.limb, 8))
                            if used and not want <= used and b.kind == 'vec':
                                bad = bad or (sh, 'limb %d of `%s` ignores input coefficients at %s' % (i, outn, sorted(want - used)[:4]))
                subj = '%s [%s,%s]' % (name, 'fft64' if mtype == FFT64 else 'ntt120', cpu)
                if bad:
                    R.ob('opaque-limb-geometry', subj, 'refuted', detail=bad[1], key='%s:limb-geometry' % name, witness=dict(bad[0], cpu=cpu))
                else:
                    R.ob('opaque-limb-geometry', subj, 'holds', detail='%d shapes' % len(shapes))
    return nruns


# ---------------------------------------------------------------------------------------------------------------------
# P  stage dependence: the limb-level dependence relation of every pipeline stage.  In exact polynomial arithmetic output
#    limb i of each operation is a function of a known set of input limbs, and of all of them (carry chains of the
#    normalizations reach every less significant limb, a matrix product sums every row).  A stage that consumes fewer
#    limbs than that (a truncated carry chain, a skipped row) or other limbs cannot be exact in a pipeline whose
#    intermediate objects are un-normalized.  Decided from the E4 support sets of the stored expressions.
def _same(inp):
    return lambda sh, i, n: {(inp, i)} if i < n[inp] else set()


def _both(sh, i, n):
    return ({('a', i)} if i < n['a'] else set()) | ({('b', i)} if i < n['b'] else set())


def _carry(sh, i, n):
    return {('a', j) for j in range(i, n['a'])} if i < n['a'] else set()


def _carry_range(sh, i, n):
    idx = list(range(sh['a_range_begin'], sh['a_range_xend'], sh['a_range_step']))
    return {('a', idx[j]) for j in range(i, len(idx))} if i < len(idx) else set()


def _rows(inp):
    def f(sh, i, n):
        if i >= sh['ncols']:
            return set()
        rows = min(n[inp], sh['nrows'])
        return ({(inp, r) for r in range(rows)} | {('pmat', None)}) if rows else set()
    return f


def _svp(sh, i, n):
    return {('a', i), ('ppol', None)} if i < n['a'] else set()


STAGES = {
    'vec_znx_copy': ('res', _same('a')), 'vec_znx_negate': ('res', _same('a')),
    'vec_znx_rotate': ('res', _same('a')), 'vec_znx_automorphism': ('res', _same('a')),
    'vec_znx_add': ('res', _both), 'vec_znx_sub': ('res', _both),
    'vec_znx_normalize_base2k': ('res', _carry),
    'vec_znx_dft': ('res', _same('a')), 'vec_znx_idft': ('res', _same('a_dft')), 'vec_znx_idft_tmp_a': ('res', _same('a_dft')),
    'vec_znx_big_add': ('res', _both), 'vec_znx_big_sub': ('res', _both),
    'vec_znx_big_add_small': ('res', _both), 'vec_znx_big_add_small2': ('res', _both),
    'vec_znx_big_sub_small_a': ('res', _both), 'vec_znx_big_sub_small_b': ('res', _both), 'vec_znx_big_sub_small2': ('res', _both),
    'vec_znx_big_normalize_base2k': ('res', _carry),
    'vec_znx_big_range_normalize_base2k': ('res', _carry_range),
    'svp_apply_dft': ('res', _svp),
    'vmp_apply_dft': ('res', _rows('a')), 'vmp_apply_dft_to_dft': ('res', _rows('a_dft')),
}


def stage_dependence(L, R, tier):
    box = ApiBox(L)
    nruns = 0
    for name, (outn, expect) in STAGES.items():
        if name not in API:
            R.broke('pipeline stage %s is not in the API contract' % name)
            continue
        mods = [FFT64] + ([NTT120] if name in NTT120_FUNCS else [])
        for mtype in mods:
            for cpu in (('accel', 'generic') if mtype == FFT64 else ('accel',)):
                bad = None
                shapes = [sh for sh in shapes_for(name, tier) if sh['N'] <= (8 if tier == 'quick' else 32)]
                for sh in shapes:
                    try:
                        r = box.instantiate(name, sh, cpu, mtype, expand='values')
                    except (Unsupported, NeedEnum) as e:
                        R.broke('%s %s: %s' % (name, sh, e))
                        continue
                    nruns += 1
                    if r.status != 'ok':
                        bad = bad or (sh, 'call %s' % (r.status,))
                        continue
                    out = r.bufs[outn]
                    st = final_state(r, ('out',)).get(outn, {})
                    ins = {b.name: b for b in r.bufs.values() if b.role in ('in', 'inout') and b.name != outn}
                    nl = {nm: (b.nlimbs if b.nlimbs is not None else 1) for nm, b in ins.items()}
                    per = {}
                    for off, (sz, v) in st.items():
                        i, w = divmod(off, out.stride or out.nbytes or 1)
                        if out.limb is not None and w >= out.limb:
                            continue
                        d = per.setdefault(i, set())
                        for (bn, o, _) in support(v):
                            b = ins.get(bn)
                            if b is None:
                                continue
                            if b.nlimbs is None:
                                d.add((bn, None))
                            else:
                                j, w2 = divmod(o, b.stride)
                                d.add((bn, j))
                    for i in range(out.nlimbs or 0):
                        got = per.get(i, set())
                        want = expect(sh, i, nl)
                        miss, extra = want - got, got - want
                        if miss:
                            bn, j = sorted(miss, key=str)[0]
                            bad = bad or (sh, 'limb %d of `%s` does not depend on %s of `%s`, which the exact operation uses' % (
                                i, outn, 'limb %d' % j if j is not None else 'the content', bn))
                        elif extra and len(R.info) < 50:
                            # syntactic dependence only: reported, not a verdict (an expression may mention a limb and
                            # not depend on it); the limb-geometry clause O decides foreign limbs for the opaque types
                            bn, j = sorted(extra, key=str)[0]
                            R.info.append('%s %s: limb %d of `%s` mentions %s of `%s`' % (
                                name, sh, i, outn, 'limb %d' % j if j is not None else 'the content', bn))
                subj = '%s [%s,%s]' % (name, 'fft64' if mtype == FFT64 else 'ntt120', cpu)
                if bad:
                    R.ob('stage-consumes-exactly-the-limbs-of-the-exact-operation', subj, 'refuted', detail=bad[1],
                         key='%s:stage-dependence' % name, witness=dict(bad[0], cpu=cpu))
                else:
                    R.ob('stage-consumes-exactly-the-limbs-of-the-exact-operation', subj, 'holds', detail='%d shapes' % len(shapes),
                         nontrivial=len(shapes) > 0)
    return nruns


def prepared_matrix(L, R, tier):
    """M: the VMP_PMAT written by vmp_prepare_contiguous is the object vmp_apply_dft_to_dft reads: the producer-derived layout
    map (every matrix entry's transform stored exactly once, inside the object) and the consumer's dot product under that map
    (the engine of C02 on a small box that includes one-column and odd-column matrices and both prepared layouts)"""
    import itertools
    from ..values import Canon
    from . import C02
    n = 0
    for cpu in ('accel', 'generic'):
        bad = None
        for N in (4, 8, 16):
            cn = Canon()
            for nrows, ncols in itertools.product((1, 2, 3), (1, 2, 3)):
                sh = {'N': N, 'nrows': nrows, 'ncols': ncols}
                try:
                    lay, err = C02.derive_layout(L, N, nrows, ncols, cpu, cn)
                    n += 1
                    if err:
                        bad = bad or (sh, 'producer: ' + err)
                        continue
                    for a_size, res_size in ((nrows, ncols), (1, 1)):
                        err, _ = C02.check_apply(L, N, nrows, ncols, a_size, res_size, cpu, lay, cn)
                        n += 1
                        if err:
                            bad = bad or (dict(sh, a_size=a_size, res_size=res_size), 'consumer: ' + err)
                except (Unsupported, NeedEnum) as e:
                    R.broke('prepared matrix %s: %s' % (sh, e))
        subj = 'vmp_prepare_contiguous -> vmp_apply_dft_to_dft [%s]' % cpu
        if bad:
            R.ob('prepared-matrix-producer-and-consumer-agree', subj, 'refuted', detail=bad[1], key='vmp_pmat:agreement',
                 witness=dict(bad[0], cpu=cpu))
        else:
            R.ob('prepared-matrix-producer-and-consumer-agree', subj, 'holds')
    return n


def run(tier):
    R = Report('C16', tier)
    L, G = ctx.lib(), ctx.cg()
    nw = dispatch(L, G, R)
    R.floor('public wrappers checked', nw, 38)
    nr = layout(L, R, tier)
    ns = stage_dependence(L, R, tier)
    nm = prepared_matrix(L, R, tier)
    R.floor('prepared-matrix producer/consumer instantiations', nm, 100)
    R.floor('value-mode instantiations for the stage-dependence clause', ns, 15000)
    R.evaluations = nr + nw + ns
    R.floor('value-mode instantiations for the layout clause', nr, 900)
    R.rules.append('obligation = (clause, wrapper | function x module x cpu)')
    R.assumptions += ['the value of pipelines (exactness of FFT64 / NTT120 arithmetic) is not decided',
                      'limb geometry is shown on N <= 16 (quick) / 64 (thorough), where no assembly kernel hides the data flow; '
                      'assembly kernels are modelled as depending on everything they read']
    return R.finish('Static shape of the wrappers and slot table (E1) + E4 support sets of every value stored in an opaque output.')
