"""C11 — memory contract: declared extents and *_tmp_bytes scratch are never exceeded.

Decided by the region engine (E3).  For every module-level entry point of the contract (spqa/contract.py,
DESIGN Appendix A), both module types where the entry exists, both CPU dispatch configurations, and every shape
tuple of an explicit box that contains all degenerate corners (limb counts 0, unequal, strides > N, N below the
kernel thresholds): the function's summary is instantiated and
  * no loop bound wraps (closed-form trip counts with 64-bit modular semantics), no in-domain abort;
  * every read lies in the declared extent of an input / the scratch / the output, every write in the declared extent
    of an output / the scratch, where the extents of opaque objects and scratch are the values returned by the
    library's own bytes_of_* / *_tmp_bytes functions evaluated on the same shape;
  * table memory (module, precomputed tables) is only read, inside its allocation;
  * every byte of an output is written; no byte of output or scratch is read before the call wrote it (ordered
    instantiation), i.e. no result depends on uninitialised memory;
  * size functions have no effects; every new_*/delete_* pair frees exactly what it allocated.
Alignment: no alignment-sensitive access on caller buffers (E2 provenance, all exported functions).
The data values never matter: they are abstract, so the verdict covers all inputs and both dispatch paths; the
quantifier over shapes is covered on the box (evidence: exhaustive=false, box listed)."""
from collections import defaultdict

from .. import ctx
from ..apicheck import ApiBox
from ..contract import API, SIZE_FUNCS
from ..harness import Ctx, FFT64, NTT120
from ..machine import Runaway
from ..report import Report
from ..sweep import CLAUSES, sweep_api
from ..trusted import TRUSTED
from ..vals import Aborted, NeedEnum, Ptr, Unsupported, is_int
from .C15 import rule_d

PAIRS = [
    # (constructor, ctor args(N,m), destructor, description)
    ('new_module_info', lambda N: [N, FFT64], 'delete_module_info', 'FFT64 module'),
    ('new_module_info', lambda N: [N, NTT120], 'delete_module_info', 'NTT120 module'),
    ('q120_new_ntt_bb_precomp', lambda N: [N], 'q120_del_ntt_bb_precomp', 'q120 NTT tables'),
    ('q120_new_intt_bb_precomp', lambda N: [N], 'q120_del_intt_bb_precomp', 'q120 iNTT tables'),
    ('q120_new_vec_mat1col_product_baa_precomp', lambda N: [], 'q120_delete_vec_mat1col_product_baa_precomp', 'q120 baa'),
    ('q120_new_vec_mat1col_product_bbb_precomp', lambda N: [], 'q120_delete_vec_mat1col_product_bbb_precomp', 'q120 bbb'),
    ('q120_new_vec_mat1col_product_bbc_precomp', lambda N: [], 'q120_delete_vec_mat1col_product_bbc_precomp', 'q120 bbc'),
]
MODULE_OBJS = [('new_vec_znx_dft', [3], 'delete_vec_znx_dft'), ('new_vec_znx_big', [3], 'delete_vec_znx_big'),
               ('new_svp_ppol', [], 'delete_svp_ppol'), ('new_vmp_pmat', [2, 3], 'delete_vmp_pmat')]
# table constructors whose product the caller releases with free() (documented in the headers)
FREE_RELEASED = ['new_reim_fft_precomp', 'new_reim_ifft_precomp', 'new_cplx_fft_precomp', 'new_cplx_ifft_precomp',
                 'new_reim_fftvec_mul_precomp', 'new_reim_fftvec_addmul_precomp', 'new_reim_from_znx64_precomp',
                 'new_reim_to_znx64_precomp']


def alloc_pairing(lib, R, tier):
    n = 0
    Ns = [1, 2, 4, 16, 64] if tier == 'quick' else [1, 2, 4, 8, 16, 32, 64, 256, 1024, 4096]
    for cpu in ('accel', 'generic'):
        for N in Ns:
            for ctor, mkargs, dtor, what in PAIRS:
                if N < 2 and what == 'FFT64 module':
                    continue  # FFT64 needs N >= 2 (m = N/2 >= 1)
                n += 1
                subj = '%s/%s [N=%d,%s]' % (ctor, dtor, N, cpu)
                try:
                    c = Ctx(lib, cpu=cpu, trusted=TRUSTED)
                    st, ret, ev = c.run(ctor, mkargs(N))
                    if st != 'ok':
                        R.ob('new-delete-pairing', subj, 'refuted', detail='constructor %s: %s' % (ctor, st,),
                             key='%s:ctor-fails' % ctor)
                        continue
                    allocs = [e.obj for e in ev if e.kind == 'A']
                    freed_in_ctor = [e.obj for e in ev if e.kind == 'F']
                    live = [o for o in allocs if o not in freed_in_ctor]
                    if not isinstance(ret, Ptr):
                        if not live:
                            R.ob('new-delete-pairing', subj, 'holds', detail='constructor returns no object in this configuration',
                                 nontrivial=False)
                            continue
                        R.ob('new-delete-pairing', subj, 'refuted', detail='constructor returns %r but leaves %d allocation(s)' % (
                            ret, len(live)), key='%s:returns-nonpointer' % ctor)
                        continue
                    n0 = len(c.m.events)
                    st2, _, ev2 = c.run(dtor, [ret])
                    if st2 != 'ok':
                        R.ob('new-delete-pairing', subj, 'refuted', detail='destructor %s: %s' % (dtor, st2), key='%s:dtor-fails' % dtor)
                        continue
                    freed = []
                    dbl = []
                    for e in ev2:
                        if e.kind == 'F' and e.obj is not None:
                            if e.obj in freed:
                                dbl.append(e)
                            if not (is_int(e.off) and e.off == 0):
                                dbl.append(e)
                            freed.append(e.obj)
                    leak = [o for o in live if o not in freed]
                    foreign = [o for o in freed if o not in allocs]
                    if leak or dbl or foreign:
                        R.ob('new-delete-pairing', subj, 'refuted',
                             detail='%s: leaked %s; double/offset free %s; foreign free %s' % (
                                 what, [o.name for o in leak], [str(e.loc) for e in dbl], [o.name for o in foreign]),
                             key='%s:%s' % (ctor, 'leak' if leak else 'bad-free'), loc=(leak[0].site if leak else None))
                    else:
                        R.ob('new-delete-pairing', subj, 'holds', detail='%d allocation(s) released' % len(live))
                except (Unsupported, NeedEnum, Runaway, Aborted) as e:
                    R.ob('new-delete-pairing', subj, 'unknown', detail=str(e))
            # objects sized by the module
            if N < 2:
                continue
            try:
                c = Ctx(lib, cpu=cpu, trusted=TRUSTED)
                mod = c.module(N, FFT64)
                for ctor, a, dtor in MODULE_OBJS:
                    n += 1
                    subj = '%s/%s [N=%d,%s]' % (ctor, dtor, N, cpu)
                    st, ret, ev = c.run(ctor, [mod] + a)
                    allocs = [e.obj for e in ev if e.kind == 'A']
                    if st != 'ok' or not isinstance(ret, Ptr):
                        R.ob('new-delete-pairing', subj, 'refuted', detail='%s -> %s' % (ctor, st), key='%s:ctor-fails' % ctor)
                        continue
                    st2, _, ev2 = c.run(dtor, [ret])
                    freed = [e.obj for e in ev2 if e.kind == 'F']
                    leak = [o for o in allocs if o not in freed]
                    if st2 != 'ok' or leak or len(freed) != len(allocs):
                        R.ob('new-delete-pairing', subj, 'refuted', detail='leak %s' % [o.name for o in leak], key='%s:leak' % ctor)
                    else:
                        R.ob('new-delete-pairing', subj, 'holds')
            except (Unsupported, NeedEnum, Runaway, Aborted) as e:
                R.ob('new-delete-pairing', 'module objects [N=%d,%s]' % (N, cpu), 'unknown', detail=str(e))
    return n


def size_funcs(lib, R, tier):
    n = 0
    box = ApiBox(lib)
    for cpu in ('accel', 'generic'):
        for N in ([2, 16] if tier == 'quick' else [2, 4, 8, 16, 64, 1024]):
            c = box.get(N, FFT64, cpu, False)
            for fn in SIZE_FUNCS:
                f = lib.fn(fn)
                if f is None:
                    R.broke('size function %s vanished' % fn)
                    continue
                nargs = len(f.args) - 1
                for a in ([1, 2, 3, 4][:nargs], [0] * nargs, [3, 1, 2, 5][:nargs]):
                    n += 1
                    r = box.size_of(c, fn, a)
                    subj = '%s%s [N=%d,%s]' % (fn, tuple(a), N, cpu)
                    if r[0] != 'ok':
                        R.ob('size-function-pure', subj, 'refuted', detail='%r' % (r,), key='%s:not-a-size' % fn)
                    elif r[2]:
                        R.ob('size-function-pure', subj, 'refuted', detail='size function has effects: %s' % r[2][:2],
                             key='%s:has-effects' % fn, loc=r[2][0].loc)
                    else:
                        R.ob('size-function-pure', subj, 'holds', detail='= %d' % r[1])
    return n


def add_sweep(R, res, prefix=''):
    nruns = 0
    for (name, mod, cpu, al), rec in sorted(res.items(), key=str):
        nruns += rec['runs']
        for b in rec['broken'][:3]:
            R.broke(b)
        for cl in CLAUSES:
            subj = '%s%s [%s,%s%s]' % (prefix, name, mod, cpu, (',%s==%s' % al) if al else '')
            fl = rec['findings'].get(cl)
            if fl:
                f0 = fl[0]
                R.ob(cl, subj, 'refuted', detail='%s (%d shape(s))' % (f0['detail'], len(fl)),
                     key='%s:%s:%s' % (name, cl, (f0['loc'] or '').split('/')[-1]), witness=f0['shape'], loc=f0['loc'])
            else:
                R.ob(cl, subj, 'holds', nontrivial=rec['runs'] > 0)
    return nruns


def run(tier):
    R = Report('C11', tier)
    L, G, E = ctx.lib(), ctx.cg(), ctx.effects()
    res = sweep_api(L, tier, ordered=True)
    nruns = add_sweep(R, res)
    R.evaluations = nruns
    R.floor('contract entries instantiated', len({k[0] for k in res}), 28)
    R.floor('call instantiations (function x module x cpu x shape x mode)', nruns, 10000 if tier == 'quick' else 20000)
    nev = sum(r['events'] for r in res.values())
    R.floor('memory events checked', nev, 100000)
    ns = size_funcs(L, R, tier)
    R.floor('size function evaluations', ns, 60)
    na = alloc_pairing(L, R, tier)
    R.floor('new/delete pairs instantiated', na, 40)
    nd = rule_d(L, E, R)
    R.floor('caller-buffer parameters checked for alignment sensitivity', nd, 600)
    # kernel-layer contract
    from ..kernels import sweep_kernels
    nk, kfloor = sweep_kernels(L, R, tier)
    R.floor('kernel-layer instantiations', nk, kfloor)
    # canary: the engine must report the seeded contract violations of the fixtures
    from ..fixcheck import engine_canaries
    engine_canaries(R)
    R.extra['box'] = {'N': [2, 4, 8, 16] if tier == 'quick' else [2, 4, 8, 16, 32, 64],
                      'limb_counts': [0, 1, 2, 3] if tier == 'quick' else [0, 1, 2, 3, 5],
                      'strides': 'N, N+1' + ('' if tier == 'quick' else ', 2N+3'), 'cpu': ['accel', 'generic'],
                      'modules': ['fft64', 'ntt120 (dft/idft and the generic vec_znx entries)']}
    R.extra['events_checked'] = nev
    R.rules.append('evaluation = one instantiated call (function, module type, cpu, shape, accelerated|ordered mode); obligation = '
                   '(clause, function, module, cpu); non-trivial = at least one instantiation ran')
    R.assumptions += ['N is a power of two >= 2, strides >= N, arguments with different roles are distinct allocations',
                      'shape quantifier covered on the box only; data, paths and dispatch are covered completely',
                      'size overflow of size*nn*8 for absurd sizes is out of scope']
    return R.finish('Region engine E3: per-call instantiation of loop-accelerated access summaries; containment, exact cover, '
                    'read-before-write, table immutability, allocation pairing; extents taken from the library\'s own size '
                    'functions evaluated in the same engine.')
