"""C13 — supported in-place calls give the same result as out-of-place calls.

Dependence rule on the ordered access summary.  For every documented aliasing pattern (contract tables: res==a,
res==b for add/sub, res==a for copy/negate/rotate/automorphism/normalisation and the big variants, the inverse DFT over
its own input, pointwise products with r==a or r==b) the entry point is instantiated with the output and that input
bound to the *same* buffer (same pointer, same stride), over the box of limb counts (including unequal counts while
aliased), both CPU paths.  An out-of-place call reads the original input everywhere; the aliased call computes the
same result iff no byte is read *through the input parameter* after it was written *through the output parameter*
(flow dependence created by the aliasing).  Accesses are labelled with the parameter they derive from (provenance
survives pointer arithmetic), so reads of the in-place kernels through the output pointer are not confused with input
reads.  All other memory obligations (C11) are re-checked on the aliased instantiation.
Value clause (E4): in addition, for every pattern and shape of the (smaller) value box the expression left in each
declared output location by the aliased call equals the expression the out-of-place call stores there (inputs renamed
to the shared buffer; a location the aliased call does not write keeps the buffer's initial content) - this covers
zero-extension while aliased and the dedicated in-place rotation/automorphism kernels for the sampled p.
Not decided here: that the out-of-place rotation/automorphism is the right ring map (C09)."""
from collections import defaultdict

from .. import ctx
from .. import regions as RG
from ..apicheck import ApiBox, check_run, shapes_for
from ..contract import API, NTT120_FUNCS
from ..harness import FFT64, NTT120
from ..kernels import KERNELS, KBox
from ..report import Report
from ..vals import NeedEnum, Unsupported


def alias_findings(run, out_name, in_name):
    """reads via `in_name` of bytes already written via `out_name` (same object)"""
    F = []
    written = []
    obj = run.bufs[out_name].ptr.obj
    for e in run.events:
        if e.obj is not obj or e.kind not in ('R', 'W'):
            continue
        try:
            iv = RG.normalize(RG.event_intervals(e))
        except RG.TooBig:
            iv = [RG.hull(e)]
        if e.kind == 'W' and e.via == out_name:
            written = RG.normalize(written + iv)
        elif e.kind == 'R' and e.via == in_name:
            bad = RG.intersect(iv, written)
            if bad:
                F.append({'rule': 'alias-flow-dependence', 'clause': 'alias-flow-dependence', 'fn': run.name, 'shape': run.desc(),
                          'detail': 'with %s==%s the call reads bytes %s of `%s` after overwriting them through `%s` (%s)' % (
                              out_name, in_name, bad[:3], in_name, out_name, e.stack[-1] if e.stack else '?'), 'loc': e.loc})
                break
    return F


def value_equivalence(R, tier, L):
    """E4: the aliased call stores, in every declared output location, the expression the out-of-place call stores
    (with the input renamed to the shared buffer); an unwritten location keeps the shared buffer's initial content."""
    from ..equiv import final_state, has_unknown, rename
    from ..values import Canon, fmt, sym
    box = ApiBox(L)
    kbox = KBox(L)
    K = KERNELS(tier)
    cn = Canon()
    n = ncmp = 0

    def compare(mk, out_name, in_name, shapes):
        nonlocal n, ncmp
        bad = None
        for sh in shapes:
            try:
                ra = mk(sh, None)
                rb = mk(sh, (out_name, in_name))
            except (Unsupported, NeedEnum) as e:
                R.broke('%s' % e)
                continue
            n += 1
            if ra.status != 'ok' or rb.status != 'ok':
                if ra.status != rb.status:
                    bad = bad or (sh, 'out-of-place call %s, aliased call %s' % (ra.status, rb.status))
                continue
            sa = final_state(ra, ('out',)).get(out_name, {})
            sb = final_state(rb, ('out',)).get(out_name, {})
            memo = {}
            decl = ra.bufs[out_name].declared
            for lo, hi in decl:
                for off in range(lo, hi, 8):
                    va = sa.get(off)
                    if va is None or va[0] != 8:
                        continue  # different granularity (i128 stores ...): not comparable here
                    vb = sb.get(off)
                    if vb is not None and vb[0] != 8:
                        continue
                    xa = rename(va[1], {in_name: out_name}, memo)
                    xb = vb[1] if vb is not None else sym('in', out_name, off, 8)
                    if has_unknown(xa) or has_unknown(xb):
                        continue
                    ncmp += 1
                    try:
                        same = cn.key(xa) == cn.key(xb)
                    except OverflowError:
                        continue
                    if not same:
                        bad = bad or (sh, '`%s`+%d: out-of-place call stores %s, call with %s==%s leaves %s' % (
                            out_name, off, fmt(xa)[:100], out_name, in_name, fmt(xb)[:100]))
        return bad

    for name, spec in API.items():
        for al in spec.get('alias', []):
            mods = [FFT64]
            if name in NTT120_FUNCS and 'ntt120' in spec.get('alias_modules', ['fft64', 'ntt120']):
                mods.append(NTT120)
            for mtype in mods:
                for cpu in (('accel', 'generic') if mtype == FFT64 else ('accel',)):
                    shapes = [sh for sh in shapes_for(name, tier, al) if sh['N'] <= (8 if tier == 'quick' else 16)]
                    bad = compare(lambda sh, a: box.instantiate(name, sh, cpu, mtype, alias=a, expand='values'), al[0], al[1], shapes)
                    subj = '%s [%s==%s,%s,%s]' % (name, al[0], al[1], 'fft64' if mtype == FFT64 else 'ntt120', cpu)
                    if bad:
                        R.ob('aliased-call-stores-the-out-of-place-values', subj, 'refuted', detail=bad[1],
                             key='%s:%s==%s:values' % (name, al[0], al[1]), witness=dict(bad[0], cpu=cpu))
                    else:
                        R.ob('aliased-call-stores-the-out-of-place-values', subj, 'holds', detail='%d shapes' % len(shapes))
    for name, spec in sorted(K.items()):
        for al in spec.get('alias', []):
            for cpu in spec.get('cpus', ('accel', 'generic')):
                shapes = [sh for sh in spec['dom'] if max([v for v in sh.values() if isinstance(v, int)] + [0]) <= 32]
                bad = compare(lambda sh, a: kbox.instantiate(name, spec, sh, cpu, alias=a, expand='values'), al[0], al[1], shapes)
                subj = 'kernel %s [%s==%s,%s]' % (name, al[0], al[1], cpu)
                if bad:
                    R.ob('aliased-call-stores-the-out-of-place-values', subj, 'refuted', detail=bad[1],
                         key='%s:%s==%s:values' % (name, al[0], al[1]), witness=dict(bad[0], cpu=cpu))
                else:
                    R.ob('aliased-call-stores-the-out-of-place-values', subj, 'holds', detail='%d shapes' % len(shapes))
    return n, ncmp


def run(tier):
    R = Report('C13', tier)
    L = ctx.lib()
    box = ApiBox(L)
    nruns = 0
    npat = 0
    nv, ncmp = value_equivalence(R, tier, L)
    R.floor('value-mode (out-of-place, aliased) instantiation pairs', nv, 3000)
    R.floor('output locations compared between aliased and out-of-place calls', ncmp, 30000)
    for name, spec in API.items():
        for al in spec.get('alias', []):
            mods = [FFT64]
            if name in NTT120_FUNCS and 'ntt120' in spec.get('alias_modules', ['fft64', 'ntt120'] if name in NTT120_FUNCS else []):
                mods.append(NTT120)
            for mtype in mods:
                for cpu in (('accel', 'generic') if mtype == FFT64 else ('accel',)):
                    npat += 1
                    found = defaultdict(list)
                    runs = 0
                    for sh in shapes_for(name, tier, al):
                        try:
                            r = box.instantiate(name, sh, cpu, mtype, alias=al, expand=True)
                        except (Unsupported, NeedEnum) as e:
                            R.broke('%s %s: %s' % (name, sh, e))
                            continue
                        runs += 1
                        for fd in alias_findings(r, al[0], al[1]) + check_run(r, ordered=True):
                            if fd['clause'] == 'output-not-fully-written':
                                continue  # in place, an unwritten byte keeps the input value (identity cases); values are C09
                            found[fd['clause']].append(fd)
                    nruns += runs
                    subj = '%s [%s==%s,%s,%s]' % (name, al[0], al[1], 'fft64' if mtype == FFT64 else 'ntt120', cpu)
                    if found:
                        for cl, fl in sorted(found.items()):
                            f0 = fl[0]
                            R.ob(cl, subj, 'refuted', detail='%s (%d shape(s))' % (f0['detail'], len(fl)),
                                 key='%s:%s==%s:%s' % (name, al[0], al[1], cl), witness=f0['shape'], loc=f0['loc'])
                    else:
                        R.ob('in-place-equals-out-of-place', subj, 'holds', detail='%d aliased instantiations' % runs,
                             nontrivial=runs > 0)
    # kernel layer
    K = KERNELS(tier)
    kbox = KBox(L)
    for name, spec in sorted(K.items()):
        for al in spec.get('alias', []):
            for cpu in spec.get('cpus', ('accel', 'generic')):
                npat += 1
                found = defaultdict(list)
                runs = 0
                for sh in spec['dom']:
                    if max([v for v in sh.values() if isinstance(v, int)] + [0]) > 4096:
                        continue
                    try:
                        r = kbox.instantiate(name, spec, sh, cpu, alias=al, expand=True)
                    except (Unsupported, NeedEnum) as e:
                        R.broke('%s %s: %s' % (name, sh, e))
                        continue
                    runs += 1
                    for fd in alias_findings(r, al[0], al[1]) + check_run(r, ordered=True):
                        if fd['clause'] == 'output-not-fully-written':
                            continue
                        found[fd['clause']].append(fd)
                nruns += runs
                subj = 'kernel %s [%s==%s,%s]' % (name, al[0], al[1], cpu)
                if found:
                    for cl, fl in sorted(found.items()):
                        f0 = fl[0]
                        R.ob(cl, subj, 'refuted', detail='%s (%d shape(s))' % (f0['detail'], len(fl)),
                             key='%s:%s==%s:%s' % (name, al[0], al[1], cl), witness=f0['shape'], loc=f0['loc'])
                else:
                    R.ob('in-place-equals-out-of-place', subj, 'holds', detail='%d aliased instantiations' % runs,
                         nontrivial=runs > 0)
    R.evaluations = nruns
    R.floor('aliasing patterns (function x pair x module x cpu)', npat, 90)
    R.floor('aliased instantiations', nruns, 5000 if tier == 'quick' else 8000)
    # canaries
    FL, FG, FE = ctx.fixtures()
    fb = KBox(FL)
    from ..kernels import S
    N8 = lambda s: 8 * s['n']
    spec = dict(args=[('i', lambda s: s['n']), ('b', 'res', 'out', N8), ('b', 'a', 'in', N8)], dom=[S(n=4)])
    r1 = fb.instantiate('fx_r_alias_unsafe', spec, S(n=4), 'accel', alias=('res', 'a'), expand=True)
    r2 = fb.instantiate('fx_r_alias_ok', spec, S(n=4), 'accel', alias=('res', 'a'), expand=True)
    if not alias_findings(r1, 'res', 'a'):
        R.broke('canary did not fire: fx_r_alias_unsafe')
    if alias_findings(r2, 'res', 'a'):
        R.broke('negative control fired: fx_r_alias_ok')
    R.extra['canaries_fired'] = ['fx_r_alias_unsafe -> alias-flow-dependence']
    R.rules.append('evaluation = one aliased, fully ordered instantiation; obligation = (function, aliased pair, module, cpu)')
    R.assumptions += ['aliasing means the very same pointer and stride (the property statement); partial overlaps are out of scope',
                      'memcpy/memset with identical source and destination is the identity']
    return R.finish('Ordered region summaries with parameter provenance; flow-dependence rule under the substitution out == in.')
