"""C08 — vec_znx size/stride semantics: zero-extend, truncate, write only res limbs.

Decided with E3+E4 on the module-level API (zero, copy, negate, add, sub, rotate, automorphism and the nine big variants),
both module types where the entry exists, both CPU paths, every ordering of (res_size, a_size, b_size) in the box incl. 0
and strides >= N:
 W  write set: exactly the N coefficients of each of the first res_size output limbs are written - stride padding,
    limbs past res_size and the inputs are not in the write set (the inputs are also covered by C18).
 V  limb semantics: the expression stored in coefficient j of output limb i is op(a[i][j] or 0, b[i][j] or 0) as a
    polynomial over Z/2^64 in the initial contents of the inputs (an input with fewer limbs reads as zero); the big
    variants use stride N for big operands and the caller's stride for small ones, in the documented argument order.
 P  rotate / automorphism: limbs >= min(res_size, a_size) are zero and every other output limb is a signed permutation
    of the *same* input limb (each coefficient appears exactly once, with coefficient +1 or -1); which permutation is
    C09 (not applicable)."""
from .. import ctx
from ..apicheck import ApiBox, shapes_for
from ..contract import API, NTT120_FUNCS
from ..equiv import final_state, has_unknown
from ..harness import FFT64, NTT120
from ..report import Report
from ..values import Canon, fmt, sym
from ..vals import Aborted, NeedEnum, Unsupported

OPS = {
    'vec_znx_zero': ('zero', None, None), 'vec_znx_copy': ('copy', 'a', None), 'vec_znx_negate': ('neg', 'a', None),
    'vec_znx_add': ('add', 'a', 'b'), 'vec_znx_sub': ('sub', 'a', 'b'),
    'vec_znx_big_add': ('add', 'a', 'b'), 'vec_znx_big_sub': ('sub', 'a', 'b'), 'vec_znx_big_add_small': ('add', 'a', 'b'),
    'vec_znx_big_add_small2': ('add', 'a', 'b'), 'vec_znx_big_sub_small_a': ('sub', 'a', 'b'),
    'vec_znx_big_sub_small_b': ('sub', 'a', 'b'), 'vec_znx_big_sub_small2': ('sub', 'a', 'b'),
}
PERM = ['vec_znx_rotate', 'vec_znx_automorphism', 'vec_znx_big_rotate', 'vec_znx_big_automorphism']


def limb_off(buf, i):
    return i * buf.stride


def run(tier):
    R = Report('C08', tier)
    L = ctx.lib()
    box = ApiBox(L)
    cn = Canon()
    nruns = ncmp = 0
    for name in list(OPS) + PERM:
        spec = API[name]
        mods = [FFT64] + ([NTT120] if name in NTT120_FUNCS else [])
        for mtype in mods:
            for cpu in (('accel', 'generic') if mtype == FFT64 else ('accel',)):
                bad_w = bad_v = None
                n = 0
                shapes = [(sh, None) for sh in shapes_for(name, tier) if sh['N'] <= (16 if tier == 'quick' else 32)]
                # the documented in-place patterns: same definition, inputs read from the shared buffer, a location
                # the call does not write keeps its initial content
                for al in spec.get('alias', []):
                    if mtype == NTT120 and 'ntt120' not in spec.get('alias_modules', ['fft64', 'ntt120']):
                        continue
                    shapes += [(sh, tuple(al)) for sh in shapes_for(name, tier, alias=al) if sh['N'] <= (8 if tier == 'quick' else 16)]
                for sh, al in shapes:
                    try:
                        r = box.instantiate(name, sh, cpu, mtype, alias=al, expand='values')
                    except (Unsupported, NeedEnum) as e:
                        R.broke('%s %s: %s' % (name, sh, e))
                        continue
                    if al:
                        sh = dict(sh, aliased='%s==%s' % al)
                    nruns += 1
                    if r.status != 'ok':
                        bad_w = bad_w or (sh, 'call %s' % (r.status,))
                        continue
                    N = sh['N']
                    res = r.bufs['res']
                    st = final_state(r, ('out',)).get('res', {})
                    want = set()
                    for i in range(res.nlimbs):
                        for j in range(N):
                            want.add(limb_off(res, i) + 8 * j)
                    got = set(st)
                    nm = {'a': 'a', 'b': 'b'}
                    if al:
                        nm[al[1]] = 'res'
                        if got <= want and not any(st[o][0] != 8 for o in got):
                            for o in want - got:
                                st[o] = (8, sym('in', 'res', o, 8))
                            got = set(st)
                    if got != want or any(st[o][0] != 8 for o in got):
                        extra, miss = sorted(got - want), sorted(want - got)
                        bad_w = bad_w or (sh, 'write set differs from the first res_size limbs: extra offsets %s, missing %s' % (
                            extra[:4], miss[:4]))
                        continue
                    a = r.bufs.get('a')
                    b = r.bufs.get('b')
                    if name in OPS:
                        op, an, bn = OPS[name]
                        for i in range(res.nlimbs):
                            for j in range(N):
                                v = st[limb_off(res, i) + 8 * j][1]
                                if has_unknown(v):
                                    bad_v = bad_v or (sh, 'limb %d coefficient %d holds an uninterpreted value' % (i, j))
                                    continue
                                pa = cn.ring(sym('in', nm['a'], limb_off(a, i) + 8 * j, 8), 64) if (a is not None and i < a.nlimbs) else {}
                                pb = cn.ring(sym('in', nm['b'], limb_off(b, i) + 8 * j, 8), 64) if (b is not None and i < b.nlimbs) else {}
                                if op == 'zero':
                                    exp = {}
                                elif op == 'copy':
                                    exp = pa
                                elif op == 'neg':
                                    exp = cn._padd({}, pa, -1)
                                elif op == 'add':
                                    exp = cn._padd(pa, pb)
                                else:
                                    exp = cn._padd(pa, pb, -1)
                                exp = {m: c % (1 << 64) for m, c in exp.items() if c % (1 << 64)}
                                n += 1
                                if cn.ring(v, 64) != exp:
                                    bad_v = bad_v or (sh, 'limb %d coefficient %d = %s, expected %s(a[%d][%d]%s)' % (
                                        i, j, fmt(v)[:160], op, i, j, ', b[%d][%d]' % (i, j) if bn else ''))
                    else:
                        smin = min(res.nlimbs, a.nlimbs)
                        for i in range(res.nlimbs):
                            srcs = []
                            for j in range(N):
                                v = st[limb_off(res, i) + 8 * j][1]
                                n += 1
                                p = cn.ring(v, 64) if not has_unknown(v) else None
                                if i >= smin:
                                    if p != {}:
                                        bad_v = bad_v or (sh, 'limb %d (beyond the input) coefficient %d is %s, not zero' % (i, j, fmt(v)[:80]))
                                    continue
                                ok = False
                                if p is not None and len(p) == 1:
                                    (mono, c), = p.items()
                                    if len(mono) == 1 and c in (1, (1 << 64) - 1):
                                        key = [k for k, aid in cn.atoms.items() if aid == mono[0]][0]
                                        if key[0] == 'in' and key[1] == nm['a'] and limb_off(a, i) <= key[2] < limb_off(a, i) + 8 * N:
                                            srcs.append(key[2])
                                            ok = True
                                if not ok:
                                    bad_v = bad_v or (sh, 'limb %d coefficient %d = %s is not +/- one coefficient of input limb %d' % (
                                        i, j, fmt(v)[:120], i))
                            if i < smin and len(set(srcs)) != N and bad_v is None:
                                bad_v = (sh, 'limb %d is not a permutation of input limb %d (%d distinct sources)' % (i, i, len(set(srcs))))
                ncmp += n
                subj = '%s [%s,%s]' % (name, 'fft64' if mtype == FFT64 else 'ntt120', cpu)
                if bad_w:
                    R.ob('writes-exactly-the-res-limbs', subj, 'refuted', detail=bad_w[1], key='%s:write-set' % name,
                         witness=dict(bad_w[0], cpu=cpu))
                else:
                    R.ob('writes-exactly-the-res-limbs', subj, 'holds', detail='%d shapes' % len(shapes))
                rule = 'limb-is-op-of-zero-extended-inputs' if name in OPS else 'limb-is-signed-permutation-of-same-input-limb'
                if bad_v:
                    R.ob(rule, subj, 'refuted', detail=bad_v[1], key='%s:limb-semantics' % name, witness=dict(bad_v[0], cpu=cpu))
                else:
                    R.ob(rule, subj, 'holds', detail='%d coefficients' % n, nontrivial=n > 0)
    R.evaluations = nruns
    R.floor('instantiations in value mode', nruns, 10000 if tier == 'quick' else 20000)
    R.floor('coefficients compared with the definition', ncmp, 150000)
    R.extra['coefficients_compared'] = ncmp
    R.rules.append('evaluation = one instantiated call in value mode; obligation = (clause, function, module, cpu)')
    R.assumptions += ['which signed permutation rotate/automorphism apply is C09 (not applicable)',
                      'shape quantifier covered on the box (N <= 16 quick / 32 thorough; limb counts 0..3 / 0..5; strides N, N+1, mixed)']
    return R.finish('E3 write sets + E4 ring normal forms of every stored coefficient against op(a_i or 0, b_i or 0).')
