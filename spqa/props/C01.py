"""C01 — FFT64 negacyclic product is exact within the documented precision budget.

NOT decided: the rounding-error bound E (and hence exactness for E < 1/2): a floating-point round-off analysis of the
data path over all inputs of the budget is outside a sound static argument here.
Decided - necessary conditions, each breakable while every test still passes:
 K  composition (E4, small N, reference path): the value that znx_small_single_product and the pipeline
    svp_prepare -> svp_apply_dft -> vec_znx_idft_tmp_a feed to the final rounding is, read over the reals with the
    module's stored twiddles, the bilinear form  sum_{i+j=k} a_i*b_j - sum_{i+j=k+N} a_i*b_j  (the product in
    Z[X]/(X^N+1)) with every coefficient within (40*log2(N)+4)*2^-53 of 0 / +-1, the scaling by 1/m included, and the result is
    rint(.) of it converted to int64: so convert -> FFT -> pointwise product -> iFFT -> divide by m -> round is wired
    correctly (transform order, conjugation, scaling, product layout).
 W  module wiring (E1/E3): every transform / conversion / product called from an FFT64 module-level function takes its
    table from that module (no *_simple helper, no other table); the module's tables all have dimension N/2; the
    inverse conversion table is built with divisor m and selects a kernel of the wide window (never the 2^50 one,
    whose window is below the 2^52 budget); the forward conversion uses the exact-below-2^50 kernel or the reference.
 Z  zero rows: svp_apply_dft and vec_znx_idft(_tmp_a) write exact zeros in rows >= min(res_size, a_size) (C16 clause,
    re-evaluated here).
 P  double precision only: no float-typed instruction in any function reachable from the FFT64 entry points and their
    table constructors."""
from mpmath import mp, mpf

from .. import ctx
from ..equiv import final_state, has_unknown
from ..harness import Ctx, FFT64
from ..linform import NotLinear, PolyForms
from ..report import Report
from ..session import Session
from ..trusted import TRUSTED
from ..values import Sym, fmt
from ..vals import FnPtr, NeedEnum, Ptr, Unsupported, is_int

FAMILIES = {'reim_fft': 'reim_fft_', 'reim_ifft': 'reim_ifft_', 'reim_from_znx64': 'reim_from_znx64_', 'reim_to_znx64': 'reim_to_znx64_',
            'reim_fftvec_mul': 'reim_fftvec_mul_', 'reim_fftvec_addmul': 'reim_fftvec_addmul_'}


def strip_round(v):
    """fptosi(rint(fmul(X, c)))  ->  (X, c)   (reference double -> int64 conversion)"""
    if isinstance(v, Sym) and v.e[0] == 'fptosi':
        r = v.e[2]
        if isinstance(r, Sym) and r.e[0] == 'rint':
            x = r.e[1]
            if isinstance(x, Sym) and x.e[0] == 'fmul':
                a, b = x.e[1], x.e[2]
                if isinstance(b, float):
                    return a, b
                if isinstance(a, float):
                    return b, a
            return x, 1.0
    return None, None


def check_bilinear(st, N, aname, bname, a_off, b_off, res_off, label):
    """st: final store of the result buffer; returns (error, number of coefficients)"""
    PF = PolyForms(2)
    # a coefficient of the exact-arithmetic bilinear form off by delta changes the product of two monomials a_i X^i, b_j X^j
    # by delta*|a_i b_j|, where the property allows E = 16*log2(N)*2^-53*|a_i b_j|; rounding errors (bounded a priori by the
    # three transforms' bounds of C06/E, below 8*log2(N)*2^-53 each, plus the pointwise product) cannot hide more than
    # 24*log2(N)*2^-53 + 4*2^-53 of it: beyond 40*log2(N)*2^-53 + 4*2^-53 the property fails on such an input
    from math import log2 as _l2
    tol = (40 * max(1.0, _l2(N)) + 4) * mpf(2) ** -53
    n = 0
    for k in range(N):
        e = st.get(res_off + 8 * k)
        if e is None or e[0] != 8:
            return '%s: coefficient %d not written' % (label, k), n
        X, c = strip_round(e[1])
        if X is None:
            return '%s: coefficient %d is %s, not rint(value/divisor) converted to int64' % (label, k, fmt(e[1])[:120]), n
        if has_unknown(X):
            return None, n
        try:
            p = PF.of(X)
        except NotLinear as x:
            return '%s: coefficient %d: %s' % (label, k, x), n
        seen = {}
        for mono, cf in p.items():
            cf = cf * mpf(c)
            if len(mono) != 2:
                if abs(cf) > tol:
                    return '%s: coefficient %d has a term of degree %d' % (label, k, len(mono)), n
                continue
            idx = {}
            for at in mono:
                src = at.e[2] if at.e[0] == 'sitofp' else at
                if not (isinstance(src, Sym) and src.e[0] == 'in'):
                    return '%s: unexpected atom %s' % (label, fmt(at)[:60]), n
                idx.setdefault(src.e[1], []).append(src.e[2])
            if set(idx) != {aname, bname} or any(len(x) != 1 for x in idx.values()):
                if abs(cf) > tol:
                    return '%s: coefficient %d contains %s' % (label, k, [fmt(a)[:30] for a in mono]), n
                continue
            i = (idx[aname][0] - a_off) // 8
            j = (idx[bname][0] - b_off) // 8
            seen[(i, j)] = seen.get((i, j), mpf(0)) + cf
        for i in range(N):
            for j in range(N):
                want = 1 if i + j == k else (-1 if i + j == k + N else 0)
                n += 1
                got = seen.get((i, j), mpf(0))
                if abs(got - want) > tol:
                    return '%s: coefficient %d, term a_%d*b_%d has weight %s, expected %d' % (label, k, i, j, mp.nstr(got, 15), want), n
    return None, n


def composition(L, R, tier):
    Ns = [2, 4, 8, 16] if tier == 'quick' else [2, 4, 8, 16, 32]
    ncoef = 0
    for cpu in ('generic',):
        bad1 = bad2 = None
        for N in Ns:
            try:
                s = Session(L, N, cpu)
                a = s.buf('a', 8 * N, 'in')
                b = s.buf('b', 8 * N, 'in')
                res = s.buf('res', 8 * N, 'out')
                tmp = s.buf('tmp', s.size('znx_small_single_product_tmp_bytes'), 'scratch')
                st, _ = s.call('znx_small_single_product', [s.mod, res, a, b, tmp])
                if st != 'ok':
                    bad1 = bad1 or (N, 'call %s' % (st,))
                else:
                    err, n = check_bilinear(s.state(res), N, 'a', 'b', 0, 0, 0, 'znx_small_single_product')
                    ncoef += n
                    if err:
                        bad1 = bad1 or (N, err)
                # scalar-vector pipeline, one limb with stride N+1
                s = Session(L, N, cpu)
                pol = s.buf('b', 8 * N, 'in')
                ppol = s.buf('ppol', s.size('bytes_of_svp_ppol'), 'out')
                s.call('svp_prepare', [s.mod, ppol, pol])
                av = s.buf('a', 8 * ((N + 1) * 1 + N), 'in')
                dft = s.buf('dft', s.size('bytes_of_vec_znx_dft', [2]), 'inout')
                st1, _ = s.call('svp_apply_dft', [s.mod, dft, 2, ppol, av, 2, N + 1])
                big = s.buf('big', s.size('bytes_of_vec_znx_big', [2]), 'out')
                st2, _ = s.call('vec_znx_idft_tmp_a', [s.mod, big, 2, dft, 2])
                if st1 != 'ok' or st2 != 'ok':
                    bad2 = bad2 or (N, 'calls %s / %s' % (st1, st2))
                else:
                    for limb in (0, 1):
                        err, n = check_bilinear(s.state(big), N, 'a', 'b', 8 * (N + 1) * limb, 0, 8 * N * limb,
                                                'svp_prepare/svp_apply_dft/idft limb %d' % limb)
                        ncoef += n
                        if err:
                            bad2 = bad2 or (N, err)
            except (Unsupported, NeedEnum) as e:
                R.broke('composition N=%d: %s' % (N, e))
        for subj, bad in (('znx_small_single_product', bad1), ('svp_prepare -> svp_apply_dft -> vec_znx_idft_tmp_a', bad2)):
            if bad:
                R.ob('pipeline-computes-the-negacyclic-bilinear-form', '%s [%s]' % (subj, cpu), 'refuted', detail='N=%d: %s' % bad,
                     key='%s:composition' % subj.split()[0], witness={'N': bad[0], 'cpu': cpu})
            else:
                R.ob('pipeline-computes-the-negacyclic-bilinear-form', '%s [%s]' % (subj, cpu), 'holds', detail='N in %s' % Ns)
    return ncoef


def wiring(L, R, tier):
    from ..apicheck import ApiBox, shapes_for
    names = set(FAMILIES) | {f.name for f in L.exported() if f.name.endswith('_simple')}
    nsite = 0
    for cpu in ('accel', 'generic'):
        for N in ([2, 8, 16, 64] if tier == 'quick' else [2, 4, 8, 16, 64, 256, 1024, 65536]):
            c = Ctx(L, cpu=cpu, trusted=TRUSTED)
            mod = c.module(N, FFT64)
            m = N // 2
            tables = {}
            bad = None
            for off, (sz, v) in sorted(mod.obj.fields.items()):
                if isinstance(v, Ptr) and v.obj.fields is not None:
                    fn = v.obj.fields.get(0)
                    if fn and isinstance(fn[1], FnPtr):
                        fam = [k for k, pre in FAMILIES.items() if fn[1].name.startswith(pre)]
                        if fam:
                            tables.setdefault(fam[0], []).append((v.obj, fn[1].name))
                            tm = v.obj.fields.get(8)
                            if not (tm and is_int(tm[1]) and tm[1] == m):
                                bad = bad or 'table of %s has dimension %r, module has m = %d' % (fn[1].name, tm and tm[1], m)
            for fam in FAMILIES:
                if len(tables.get(fam, [])) != 1:
                    bad = bad or 'module has %d %s tables' % (len(tables.get(fam, [])), fam)
            if not bad:
                tobj, tfn = tables['reim_to_znx64'][0]
                div = tobj.fields.get(16)
                if not (div and isinstance(div[1], float) and div[1] == float(m)):
                    bad = bad or 'inverse conversion divides by %r instead of m = %d' % (div and div[1], m)
                if 'bnd50' in tfn:
                    bad = bad or 'inverse conversion uses %s, whose window (2^50) is below the 2^52 budget' % tfn
                ffn = tables['reim_from_znx64'][0][1]
                if not (ffn.endswith('_ref') or 'bnd50' in ffn):
                    bad = bad or 'forward conversion uses %s' % ffn
            subj = 'new_module_info(%d, FFT64) [%s]' % (N, cpu)
            if bad:
                R.ob('module-tables-are-consistent', subj, 'refuted', detail=bad, key='module:tables', witness={'N': N, 'cpu': cpu})
            else:
                R.ob('module-tables-are-consistent', subj, 'holds')
    # call sites: tables passed to the transforms come from the module
    box = ApiBox(L)
    for name in ('znx_small_single_product', 'svp_prepare', 'svp_apply_dft', 'vec_znx_dft', 'vec_znx_idft', 'vec_znx_idft_tmp_a',
                 'vmp_prepare_contiguous', 'vmp_apply_dft', 'vmp_apply_dft_to_dft'):
        bad = None
        for cpu in ('accel', 'generic'):
            for sh in [s for s in shapes_for(name, 'quick') if s['N'] in (4, 16) and all(
                    v >= 1 for k, v in s.items() if k.endswith('_size') or k in ('nrows', 'ncols'))][:12]:
                c = box.get(sh['N'], FFT64, cpu, True)
                c.m.trace_names = names
                c.m.trace = []
                try:
                    r = box.instantiate(name, sh, cpu, FFT64, expand=True)
                except (Unsupported, NeedEnum) as e:
                    R.broke('%s %s: %s' % (name, sh, e))
                    continue
                finally:
                    tr = c.m.trace
                    c.m.trace_names = set()
                modobjs = {id(v.obj): v.obj for off, (sz, v) in c.mod.obj.fields.items() if isinstance(v, Ptr)}
                for (fn, args, stack) in tr:
                    nsite += 1
                    if fn.endswith('_simple'):
                        bad = bad or (sh, '%s reaches the process-wide cached helper %s' % (name, fn))
                        continue
                    t = args[0]
                    if not (isinstance(t, Ptr) and id(t.obj) in modobjs):
                        bad = bad or (sh, '%s calls %s with a table that does not belong to the module' % (name, fn))
                        continue
                    f0 = t.obj.fields.get(0)
                    if not (f0 and isinstance(f0[1], FnPtr) and f0[1].name.startswith(FAMILIES[fn])):
                        bad = bad or (sh, '%s calls %s with the module\'s %s table' % (name, fn, f0 and f0[1].name))
        if bad:
            R.ob('transforms-use-the-module-tables', name, 'refuted', detail=bad[1], key='%s:wiring' % name, witness=bad[0])
        else:
            R.ob('transforms-use-the-module-tables', name, 'holds')
    return nsite


def zero_rows(L, R, tier):
    from .C16 import layout
    R2 = Report('C01-layout', tier)
    n = layout(L, R2, tier)
    for o in R2.obligations:
        if any(x in o['subject'] for x in ('svp_apply_dft', 'vec_znx_idft')) and 'fft64' in o['subject']:
            o = dict(o)
            o['rule'] = 'rows-beyond-the-input-are-zero-and-limb-local'
            R.obligations.append(o)
            R.nontrivial.add((o['rule'], o['subject']))
    R.broken += R2.broken
    return n


def precision(L, G, R):
    roots = [L.fn(n) for n in ('znx_small_single_product', 'svp_prepare', 'svp_apply_dft', 'vec_znx_dft', 'vec_znx_idft',
                               'vec_znx_idft_tmp_a', 'vmp_prepare_contiguous', 'vmp_apply_dft', 'vmp_apply_dft_to_dft',
                               'new_module_info', 'reim_fft', 'reim_ifft', 'cplx_fft', 'cplx_ifft', 'new_reim_fft_precomp',
                               'new_reim_ifft_precomp', 'new_cplx_fft_precomp', 'new_cplx_ifft_precomp')]
    roots = [f for f in roots if f is not None]
    reach = G.reachable(roots)
    bad = []
    for f in reach:
        for i in f.all_instrs():
            s = i.ty.get('s', '')
            if s == 'float' or s.endswith('x float>') or (i.op == 'call' and (i.get('callee') or '').endswith('f') and
                                                           (i.get('callee') or '') in ('cosf', 'sinf', 'sqrtf', 'expf', 'powf')):
                bad.append((f.name, i.loc, i.op))
    if bad:
        R.ob('double-precision-only', 'FFT64 call tree', 'refuted', detail='single-precision %s in %s' % (bad[0][2], bad[0][0]),
             key='float:%s' % bad[0][0], loc=bad[0][1])
    else:
        R.ob('double-precision-only', 'FFT64 call tree', 'holds', detail='%d functions reachable' % len(reach))
    return len(reach)


def _depth(v, memo):
    """largest number of floating-point roundings on a path from an input to this value (fma counted twice)"""
    if not isinstance(v, Sym):
        return 0
    r = memo.get(v)
    if r is not None:
        return r
    e = v.e
    op = e[0]
    ch = [x for x in e[1:] if isinstance(x, Sym)]
    d = max([_depth(x, memo) for x in ch] or [0])
    if op in ('fadd', 'fsub', 'fmul', 'fdiv'):
        d += 1
    elif op == 'fma':
        d += 2
    elif op not in ('in', 'fneg', 'xor'):
        d = 10 ** 6          # anything else in the product kernel: no bound
    memo[v] = d
    return d


def error_budget(L, R, tier):
    """B: the a-priori error bound of the product pipelines against the stated E.

    With rho_f, rho_i the a-priori norm-wise bounds of the forward / inverse transform of size m = N/2 (E7, C06 clause E, the
    very functions the module's tables dispatch to), A = fft(a), B = fft(b) (|A_j| <= |a|_1, ||A||_2 = sqrt(m) ||a||_2 since the
    packed transform evaluates a at half of the odd roots of unity), the pointwise product with at most d roundings per path
    (||delta||_2 <= sqrt(2) gamma_d ||A.B||_2), and ||c||_2 <= (|a|_1 ||b||_2 + ||a||_2 |b|_1) / 2 for the exact product c:
        |result_k - c_k| <= [ rho_f (1 + rho_i) + (sqrt(2) gamma_d + rho_i)(1 + rho_f) / 2 ] (|a|_1 ||b||_2 + ||a||_2 |b|_1)  (+ 1/2)
    before the final rounding to the nearest integer (C14: within 1/2 on the whole 2^52 window; the int64 -> double conversion is
    exact below 2^50).  The bracket is compared with 8*log2(N)*2^-53."""
    from concurrent.futures import ProcessPoolExecutor
    from math import log2, sqrt
    from ..kernels import KERNELS, KBox
    from .C06 import _error_bound_job
    from ..apicheck import ApiBox, shapes_for
    Ns = [4, 8, 16, 32, 128, 512, 2048] if tier == 'quick' else [4, 8, 16, 32, 64, 128, 256, 512, 1024, 2048, 4096]
    jobs = [(nm, N // 2, 'generic') for N in Ns for nm in ('reim_fft', 'reim_ifft')] + \
           [(nm, N // 2, 'accel') for N in Ns for nm in ('reim_fft', 'reim_ifft')]
    with ProcessPoolExecutor(max_workers=min(12, len(jobs))) as ex:
        res = dict(zip(jobs, ex.map(_error_bound_job, jobs)))
    # the pointwise product kernels
    K = KERNELS('quick')
    kb = KBox(L)
    dmul = {}
    for cpu in ('generic', 'accel'):
        d = 0
        for nm in ('reim_fftvec_mul', 'reim_fftvec_addmul'):
            for sh in [s_ for s_ in K[nm]['dom'] if s_.get('m') in (2, 4, 8)]:
                try:
                    r = kb.instantiate(nm, K[nm], sh, cpu, expand='values')
                except (Unsupported, NeedEnum) as e:
                    R.broke('%s %s: %s' % (nm, sh, e))
                    continue
                memo = {}
                for bn, st in final_state(r, ('out',)).items():
                    for off, (sz, v) in st.items():
                        d = max(d, _depth(v, memo))
        dmul[cpu] = d
    # the pipelines consist of two forward transforms, one pointwise product, one inverse transform and the two conversions
    box = ApiBox(L)
    names = set(FAMILIES)
    comp_bad = None
    for cpu in ('generic', 'accel'):
        for N in (8, 32):
            got = {}
            for fn_, sh in (('znx_small_single_product', {'N': N}),
                            ('svp_prepare', {'N': N}),
                            ('svp_apply_dft', {'N': N, 'res_size': 1, 'a_size': 1, 'a_sl': N}),
                            ('vec_znx_idft_tmp_a', {'N': N, 'res_size': 1, 'a_size': 1})):
                c = box.get(N, FFT64, cpu, True)
                c.m.trace_names = names
                c.m.trace = []
                try:
                    box.instantiate(fn_, sh, cpu, FFT64, expand=True)
                except (Unsupported, NeedEnum) as e:
                    R.broke('%s %s: %s' % (fn_, sh, e))
                finally:
                    tr = c.m.trace
                    c.m.trace_names = set()
                cnt = {}
                for (f_, args, stack) in tr:
                    cnt[f_] = cnt.get(f_, 0) + 1
                got[fn_] = cnt
            want_small = {'reim_from_znx64': 2, 'reim_fft': 2, 'reim_fftvec_mul': 1, 'reim_ifft': 1, 'reim_to_znx64': 1}
            svp = {}
            for k_ in ('svp_prepare', 'svp_apply_dft', 'vec_znx_idft_tmp_a'):
                for f_, n_ in got.get(k_, {}).items():
                    svp[f_] = svp.get(f_, 0) + n_
            for label, cnt in (('znx_small_single_product', got.get('znx_small_single_product', {})), ('svp pipeline', svp)):
                if cnt != want_small:
                    comp_bad = comp_bad or '%s at N=%d [%s] runs %s, expected %s' % (label, N, cpu, cnt, want_small)
    for cpu in ('generic', 'accel'):
        worst = None
        unk = None
        done = []
        for N in Ns:
            rf, ri = res[('reim_fft', N // 2, cpu)], res[('reim_ifft', N // 2, cpu)]
            if rf[0] != 'ok' or ri[0] != 'ok':
                unk = unk or 'N=%d: transform bound not established (%s)' % (N, (rf if rf[0] != 'ok' else ri)[1])
                continue
            u = 2.0 ** -53
            d = dmul[cpu]
            if d > 8:
                unk = unk or 'pointwise product kernel outside the rounding model'
                continue
            gm = d / (1 - d * u)
            total = rf[1] * (1 + ri[1] * u) + (sqrt(2) * gm + ri[1]) * (1 + rf[1] * u) / 2
            stated = 8 * log2(N)
            done.append(N)
            R.extra.setdefault('error_budget', {})['N=%d [%s]' % (N, cpu)] = {'proved_in_u': round(total, 2), 'stated_in_u': stated}
            if total > stated and (worst is None or total / stated > worst[1] / worst[2]):
                worst = (N, total, stated)
        subj = 'FFT64 product pipelines [%s]' % cpu
        if comp_bad:
            R.ob('a-priori-product-error-within-the-stated-E', subj, 'unknown', detail=comp_bad)
        elif unk or worst:
            R.ob('a-priori-product-error-within-the-stated-E', subj, 'unknown',
                 detail=unk or 'N=%d: the provable bound is %.1f u, the stated bound is %.1f u' % worst)
        else:
            R.ob('a-priori-product-error-within-the-stated-E', subj, 'holds',
                 detail='N in %s; product kernels round at most %d times per path' % (done, dmul[cpu]))
    return len(jobs)


def run(tier):
    R = Report('C01', tier)
    L, G = ctx.lib(), ctx.cg()
    n1 = composition(L, R, tier)
    n2 = wiring(L, R, tier)
    zero_rows(L, R, tier)
    n3 = precision(L, G, R)
    n4 = error_budget(L, R, tier)
    R.floor('transform error bounds used for the product budget', n4, 24)
    R.evaluations = n1 + n2
    R.floor('bilinear coefficients compared with the negacyclic product', n1, 8000)
    R.floor('transform call sites traced', n2, 150)
    R.floor('functions in the FFT64 call tree', n3, 80)
    R.rules.append('evaluation = one coefficient of the bilinear form or one traced call site')
    R.assumptions += ['coefficients are those of the reference data path read over the reals with the stored twiddles; the '
                      'floating-point error bound E: established a priori (clause B) for N <= 2048 (thorough 4096) on both CPU paths '
                      '(assembly kernels lifted); for larger N the provable bound exceeds the stated one (not decided)',
                      'composition shown for N <= 16 (quick) / 32 (thorough); accelerated kernels are tied to the reference by C07']
    return R.finish('E4 bilinear forms of the product pipelines against the negacyclic product; instantiated module tables and '
                    'traced transform call sites; E4 support sets for zero rows; type scan for single precision.')
