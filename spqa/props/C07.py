"""C07 — accelerated kernels compute the same function as their reference kernels.

 P  pair table: every exported symbol with an accelerated suffix (_avx,_avx2,_fma,_avx2_fma,_avx_fma,_sse,_avx512,
    _bnd50_fma,_bnd63_fma) is paired with its reference by name (tables/kernel_pairs.json, frozen, 59 pairs + 4
    assembly kernels) or listed with a reason; a new accelerated symbol without an entry is analysis-broken.
 D  dispatch: every table / module constructor, instantiated on its dimension domain under the generic CPU
    configuration, stores only reference kernels; under the accelerated configuration whatever it stores is the listed
    partner of the generic choice (so the two dispatch paths differ only by listed pairs).
 F  same footprint: each pair, each public dispatcher under both CPU paths, and the AVX/ref module functions have
    identical read/write byte sets on every shape of their (common) domain, down to the thresholds m = 1,2,4,8.
 V  same function: the expressions stored into the outputs (E4: lane-wise symbolic evaluation of the kernels with the
    data abstract) have equal normal forms - exact for integer and data-movement kernels (ring normal form over Z/2^64,
    exact lane maps), equality as polynomials over the reals for floating-point kernels (fma(a,b,c)=a*b+c), i.e. the
    two kernels differ at most by rounding order.
Excluded and named in evidence: the arithmetic of the four assembly kernels (footprint only); outputs that contain an
uninterpreted conversion idiom on one side only (magic-constant conversions vs rint: numeric fact, C14's undecided part)
are counted as 'not comparable', never as violations."""
from collections import defaultdict

from .. import ctx
from ..apicheck import ApiBox
from ..contract import API
from ..equiv import compare_states, final_state, footprint, has_unknown
from ..harness import Ctx, FFT64
from ..kernels import KERNELS, KBox, S, dom_m
from ..pairs import derive, is_accelerated, load_frozen
from ..report import Report
from ..trusted import TRUSTED
from ..values import Canon
from ..vals import Aborted, FnPtr, NeedEnum, Ptr, Unsupported, is_int

CTORS_M = ['new_reim_fft_precomp', 'new_reim_ifft_precomp', 'new_cplx_fft_precomp', 'new_cplx_ifft_precomp']
CTORS_1 = ['new_reim_fftvec_mul_precomp', 'new_reim_fftvec_addmul_precomp', 'new_cplx_fftvec_mul_precomp',
           'new_cplx_fftvec_addmul_precomp', 'new_reim4_fftvec_mul_precomp', 'new_reim4_fftvec_addmul_precomp',
           'new_reim4_from_cplx_precomp', 'new_reim4_to_cplx_precomp', 'new_cplx_from_znx32_precomp',
           'new_cplx_from_tnx32_precomp', 'new_reim_from_tnx32_precomp']
CTORS_X = [('new_reim_from_znx64_precomp', lambda m: [m, 50]), ('new_reim_to_znx64_precomp', lambda m: [m, float(m), 50]),
           ('new_reim_to_znx64_precomp', lambda m: [m, float(m), 63]), ('new_reim_to_tnx_precomp', lambda m: [m, 2.0, 18]),
           ('new_cplx_to_tnx32_precomp', lambda m: [m, 2.0, 18]), ('new_cplx_to_tnx32_precomp', lambda m: [m, 2.0, 30]),
           ('new_reim_to_tnx32_precomp', lambda m: [m, 2.0, 18]), ('new_reim_from_znx32_precomp', lambda m: [m, 20])]


def slot_fn(ptr):
    if isinstance(ptr, Ptr) and ptr.obj.fields is not None:
        f = ptr.obj.fields.get(0)
        if f and isinstance(f[1], FnPtr):
            return f[1].name
    return None


def dispatch_rule(L, R, frozen, tier):
    pairs = frozen['pairs']
    n = 0
    ms = [1 << k for k in range(0, 9 if tier == 'quick' else 17)]
    ctors = [(c, (lambda m: [m, 0])) for c in CTORS_M] + [(c, (lambda m: [m])) for c in CTORS_1] + CTORS_X
    for cname, mk in ctors:
        if L.fn(cname) is None:
            R.broke('constructor %s vanished' % cname)
            continue
        bad = []
        for m in ms:
            sel = {}
            for cpu in ('generic', 'accel'):
                c = Ctx(L, cpu=cpu, trusted=TRUSTED)
                try:
                    st, ret, ev = c.run(cname, mk(m))
                except (Unsupported, NeedEnum) as e:
                    R.broke('%s(%d): %s' % (cname, m, e))
                    continue
                sel[cpu] = slot_fn(ret) if st == 'ok' else None
            n += 1
            g, a = sel.get('generic'), sel.get('accel')
            if g is None and a is None:
                continue
            if g is not None and is_accelerated(g):
                bad.append((m, 'generic configuration selects accelerated kernel %s' % g))
            elif a is not None and g is not None and a != g and pairs.get(a) != g:
                bad.append((m, 'accelerated choice %s is not the listed partner of the generic choice %s' % (a, g)))
        subj = '%s%s' % (cname, tuple(mk(8)[1:]))
        if bad:
            R.ob('dispatch-differs-only-by-listed-pairs', subj, 'refuted', detail='m=%d: %s' % bad[0],
                 key='%s:dispatch' % cname, witness={'m': bad[0][0]})
        else:
            R.ob('dispatch-differs-only-by-listed-pairs', subj, 'holds')
    # a bound-specialised accelerated kernel is selected only inside the window on which it computes the reference function
    from . import C14
    try:
        outside, ninst = C14.window_selections(L, [8, 16, 1024] if tier == 'quick' else [1 << k for k in range(3, 17)])
    except (Unsupported, NeedEnum) as e:
        R.broke('window sweep: %s' % e)
        outside, ninst = [], 0
    n += ninst
    for k in sorted(C14.WINDOWS):
        bad = [o for o in outside if o[2] == k]
        if bad:
            cname, cpu, _, m, b, lim = bad[0]
            R.ob('accelerated-kernel-selected-only-where-it-equals-the-reference', k, 'refuted',
                 detail='%s(m=%d, %s=%d) selects it; it equals the reference only up to %d (%s)' % (
                     cname, m, C14.WINDOWS[k][0], b, lim, C14.WINDOWS[k][2]),
                 key='%s:window' % k, witness={'m': m, C14.WINDOWS[k][0]: b, 'cpu': cpu})
        else:
            R.ob('accelerated-kernel-selected-only-where-it-equals-the-reference', k, 'holds')
    # the conversion tables a module installs: a bound-specialised kernel must equal the reference on the module's whole
    # operand range (inputs below 2^50, product coefficients below 2^52: the documented budget of the FFT64 backend)
    BUDGET = {'reim_from_znx64': 50, 'reim_to_znx64': 52}
    for N in (16, 64):
        c = Ctx(L, cpu='accel', trusted=TRUSTED)
        mod = c.module(N, 0)
        bad = None
        seen = 0
        for off, (sz, v) in sorted(mod.obj.fields.items()):
            if isinstance(v, Ptr) and v.obj.fields is not None:
                fn = v.obj.fields.get(0)
                if fn and isinstance(fn[1], FnPtr):
                    for fam, need in BUDGET.items():
                        if fn[1].name.startswith(fam):
                            seen += 1
                            w = C14.WINDOWS.get(fn[1].name)
                            if w is not None and w[1] < need:
                                bad = bad or '%s installed by the module equals %s_ref only up to 2^%d; the module feeds it values up to 2^%d' % (
                                    fn[1].name, fam, w[1], need)
        n += 1
        subj = 'new_module_info(%d, FFT64) conversions' % N
        if seen != len(BUDGET):
            R.broke('%s: %d conversion tables found in the module, expected %d' % (subj, seen, len(BUDGET)))
        elif bad:
            R.ob('accelerated-kernel-selected-only-where-it-equals-the-reference', subj, 'refuted', detail=bad,
                 key='module:conversion-window', witness={'N': N, 'cpu': 'accel'})
        else:
            R.ob('accelerated-kernel-selected-only-where-it-equals-the-reference', subj, 'holds')
    # the module table
    for mtype, nm in ((0, 'FFT64'), (1, 'NTT120')):
        for N in (2, 16, 64):
            sel = {}
            for cpu in ('generic', 'accel'):
                c = Ctx(L, cpu=cpu, trusted=TRUSTED)
                mod = c.module(N, mtype)
                sel[cpu] = {o: v[1].name for o, v in mod.obj.fields.items() if isinstance(v[1], FnPtr)}
            bad = []
            for o in sorted(set(sel['generic']) | set(sel['accel'])):
                g, a = sel['generic'].get(o), sel['accel'].get(o)
                if g is not None and is_accelerated(g):
                    bad.append('slot +%d: generic configuration selects %s' % (o, g))
                elif g is not None and a is not None and a != g and pairs.get(a) != g:
                    bad.append('slot +%d: %s vs %s not a listed pair' % (o, a, g))
                elif g is None and a is not None and a not in frozen['no_reference']:
                    bad.append('slot +%d: %s has no generic counterpart and is not listed' % (o, a))
            n += 1
            subj = 'new_module_info(%d,%s)' % (N, nm)
            if bad:
                R.ob('dispatch-differs-only-by-listed-pairs', subj, 'refuted', detail=bad[0], key='module:%s:dispatch' % nm)
            else:
                R.ob('dispatch-differs-only-by-listed-pairs', subj, 'holds')
    return n


def small(sh, lim):
    return max([v for v in sh.values() if isinstance(v, int)] + [0]) <= lim


def equivalence(L, R, frozen, tier):
    pairs = frozen['pairs']
    K = KERNELS(tier)
    canon = Canon()
    stats = {'compared': 0, 'not_comparable': 0, 'runs': 0}
    lim = 16 if tier == 'quick' else 64

    def report(subj, key, fdiff, vdiff, ncmp, nunk, nruns, shape_f, shape_v):
        if fdiff:
            R.ob('pair-same-footprint', subj, 'refuted', detail=fdiff, key=key + ':footprint', witness=shape_f)
        else:
            R.ob('pair-same-footprint', subj, 'holds', detail='%d shapes' % nruns, nontrivial=nruns > 0)
        if vdiff:
            R.ob('pair-same-function', subj, 'refuted', detail=vdiff, key=key + ':value', witness=shape_v)
        else:
            R.ob('pair-same-function', subj, 'holds', detail='%d stored values compared, %d not comparable' % (ncmp, nunk),
                 nontrivial=ncmp > 0)

    def cmp_runs(mk_a, mk_b, doms, lazy=False):
        fdiff = vdiff = None
        sf = sv = None
        ncmp = nunk = nruns = 0
        for sh in doms:
            try:
                ra, rb = mk_a(sh), mk_b(sh)
            except (Unsupported, NeedEnum) as e:
                R.broke('%s' % e)
                continue
            except Aborted:
                continue
            nruns += 1
            if ra.status != rb.status:
                if fdiff is None:
                    fdiff, sf = 'one variant %s, the other %s' % (ra.status, rb.status), sh
                continue
            if ra.status != 'ok':
                continue
            fa, fb = footprint(ra), footprint(rb)
            if fa != fb and fdiff is None:
                k = [k for k in sorted(set(fa) | set(fb)) if fa.get(k) != fb.get(k)][0]
                fdiff, sf = '%s bytes of `%s`: %s vs %s' % ('written' if k[1] == 'W' else 'read', k[0], fa.get(k, [])[:3], fb.get(k, [])[:3]), sh
            c, u, d = compare_states(canon, final_state(ra, ('out', 'inout')), final_state(rb, ('out', 'inout')))
            ncmp += c
            nunk += u
            vd = [x for x in d if x[4] == 'value']
            if vd and lazy:
                # lazy q120 values: the two variants need only agree modulo each prime; differing integer expressions are
                # not a verdict (the no-overflow side is C04, congruence is not decidable here)
                ncmp -= len(vd)
                nunk += len(vd)
                vd = []
            if vd and vdiff is None:
                x = vd[0]
                vdiff, sv = '`%s`+%d: %s  vs  %s' % (x[0], x[1], x[2], x[3]), sh
        stats['compared'] += ncmp
        stats['not_comparable'] += nunk
        stats['runs'] += nruns
        return fdiff, vdiff, ncmp, nunk, nruns, sf, sv

    # (ii) direct pairs with a contract entry for both symbols
    kb = KBox(L)
    done = set()
    for acc, ref in sorted(pairs.items()):
        if acc in K and ref in K:
            doms = [sh for sh in K[acc]['dom'] if sh in K[ref]['dom'] and small(sh, lim)]
            res = cmp_runs(lambda sh: kb.instantiate(acc, K[acc], sh, 'accel', expand='values'),
                           lambda sh: kb.instantiate(ref, K[ref], sh, 'accel', expand='values'), doms, lazy=acc.startswith('q120'))
            report('%s <-> %s' % (acc, ref), acc, *res)
            done.add(acc)
    # (i) public dispatchers under both CPU paths
    for name, spec in sorted(K.items()):
        if not any(a[0] == 't' for a in spec['args']) or 'cpus' in spec:
            continue
        doms = [sh for sh in spec['dom'] if small(sh, lim)]
        res = cmp_runs(lambda sh: kb.instantiate(name, spec, sh, 'accel', expand='values'),
                       lambda sh: kb.instantiate(name, spec, sh, 'generic', expand='values'), doms, lazy=name.startswith('q120'))
        report('%s [accel vs generic dispatch]' % name, name + ':dispatch', *res)
    # (iii) module API under both CPU paths (vec_znx add/sub/negate AVX, vmp AVX, conversions and FFT inside)
    ab = ApiBox(L)
    from ..apicheck import shapes_for
    for name in ('vec_znx_add', 'vec_znx_sub', 'vec_znx_negate', 'vmp_prepare_contiguous', 'vmp_apply_dft_to_dft', 'vmp_apply_dft',
                 'svp_apply_dft', 'vec_znx_dft', 'vec_znx_idft', 'znx_small_single_product', 'svp_prepare'):
        shs = [sh for sh in shapes_for(name, 'quick') if sh['N'] <= (16 if tier == 'quick' else 32) and all(
            v <= 2 for k, v in sh.items() if k.endswith('_size') or k in ('nrows', 'ncols'))]
        res = cmp_runs(lambda sh: ab.instantiate(name, sh, 'accel', FFT64, expand='values'),
                       lambda sh: ab.instantiate(name, sh, 'generic', FFT64, expand='values'), shs)
        report('%s [accel vs generic module]' % name, name + ':module', *res)
    return stats


def run(tier):
    R = Report('C07', tier)
    L, G = ctx.lib(), ctx.cg()
    frozen = load_frozen()
    p, noref = derive(L)
    for a, r in p.items():
        if frozen['pairs'].get(a) != r:
            R.broke('accelerated symbol %s (reference %s by name) is not in tables/kernel_pairs.json' % (a, r))
    for a in noref:
        if a not in frozen['no_reference']:
            R.broke('accelerated symbol %s has no reference by name and is not listed' % a)
    gone = [a for a in frozen['pairs'] if a not in p]
    for a in gone:
        R.note('pair %s <-> %s of the frozen table no longer exists' % (a, frozen['pairs'][a]))
    R.floor('reference/accelerated pairs', len(p), 55)
    nd = dispatch_rule(L, R, frozen, tier)
    R.floor('constructor instantiations for the dispatch rule', nd, 150)
    st = equivalence(L, R, frozen, tier)
    R.evaluations = st['runs']
    R.floor('pair instantiations', st['runs'], 1500)
    R.floor("stored values compared by normal form", st["compared"], 8000)
    R.extra.update(st)
    # lazy q120 products: the two variants store different integer expressions of the same residues; their agreement is the
    # congruence modulo each prime (engine of C10, path by path when a kernel branches on data)
    from . import C10
    ncg = C10.products(L, R, C10.primes(), tier, ells=[0, 1, 2, 3], rename={
        'avx2-product-is-congruent-to-the-reference': 'pair-same-function-modulo-each-prime'})
    R.floor('q120 product lanes compared modulo their prime', ncg, 100)
    from ..asm import load_models
    mods, info = load_models(L)
    R.extra['assembly_kernels'] = {k: {'accesses': v['accesses'], 'aligned_instructions': v['aligned'],
                                       'arithmetic': 'lifted from the .s text (spqa.asmsem)'} for k, v in info.items()}
    for k, v in info.items():
        if v['aligned']:
            R.ob('asm-unaligned-access-only', k, 'refuted', detail='aligned move on a caller buffer: %s' % v['aligned'][0],
                 key='%s:aligned-move' % k)
        else:
            R.ob('asm-unaligned-access-only', k, 'holds')
    R.extra['no_reference'] = frozen['no_reference']
    R.rules.append('evaluation = one (pair | dispatcher | module function, shape) double instantiation in value mode; obligation = '
                   '(clause, pair)')
    R.assumptions += ['floating-point kernels are compared as real polynomials: agreement up to rounding order, not bit equality',
                      'values that pass through an uninterpreted conversion idiom are not comparable; assembly kernels are compared through their lifted semantics']
    return R.finish('E1 dispatch instantiation + E3 footprints + E4 normal forms of stored expressions for every listed pair, every '
                    'public dispatcher and the AVX-capable module functions under both CPU configurations.')
