"""C05 — base-2^k normalisation yields the balanced digit expansion.

Decided:
 I  digit/carry identity of the single-limb primitive: for each of the six argument shapes of znx_normalize (absent
    out / carry_out / carry_in; out and carry_out both absent is excluded by its precondition) and every k of the
    domain, the expressions stored into out[i] and carry_out[i] (E4, data abstract) satisfy
          in[i] + carry_in[i]  =  out[i] + 2^k * carry_out[i]          in Z/2^64
    The proof is a rewriting check: the digit helper is recognised by idiom D(t) = ashr(shl(t,64-k),64-k) (sign-extended
    low k bits) and the carry helper by C(t) = ashr(t - D(t), k); since t - D(t) has its k low bits clear,
    2^k*C(t) = t - D(t) holds in Z/2^64 for every t, and the polynomial in + cin - out - 2^k*cout must vanish after that
    substitution.  A helper in another shape is 'idiom not recognised' (exit 2), not a violation.
 S  argument shapes agree: out[i] is the same expression in every shape with the same carry-in presence, carry_out[i]
    likewise; out[i] is D(.) of something (a balanced digit) in every shape.
 V  vector level, by value (E4): every coefficient stored by vec_znx_normalize_base2k / the big and range variants is the
    digit of the carry chain over the input limbs, out_i = D(a_i + carry_{i+1}), carry_i = C(a_i + carry_{i+1}), zero beyond
    the input - compared as linear forms over Q in the atoms in(.) and D(T), the carry eliminated by its definition and
    digit arguments canonical modulo 2^k, so that the verdict does not depend on the loop organisation (one-step or
    two-step digit extraction, order, blocking).  Box shapes with N <= 8 incl. tall vectors and three k; N = 2048, 4096
    (thorough to 65536) with sampled coefficients on both sides of every 1024 boundary.
 L  (descriptive, no verdict of its own unless V fails) limb loop of today's code, ordered E3 instantiation: the primitive is
    called once per input limb, from the last limb to limb 0; limbs >= res_size are carry-only (out absent); limbs < min
    are written; the carry of each call is the buffer written by the previous call, the first call has no carry-in, the
    last has no carry-out; limbs in [a_size, res_size) are zero-stores; the carry lives in the first N*8 scratch bytes.
 R  range variant: reads exactly the limbs {begin + i*step < end} of the big vector and forwards to the same loop; the
    big variant forwards with stride N.
 O  ranges: with |in| <= 2^62 and the carry-in inside an inductive bound B_k (the carry-out of every argument shape stays inside
    B_k, found by iteration from 2^62), no addition or subtraction of the primitive leaves int64 and out lies in
    [-2^(k-1), 2^(k-1)): the chain of V is a statement about integers, for every chain length.
The arithmetic meaning of the recognised idioms (D = sign-extended low k bits, C = exact quotient) is a bit-vector fact."""
from fractions import Fraction as Fr

from .. import ctx
from .. import regions as RG
from ..apicheck import ApiBox, shapes_for
from ..equiv import final_state, has_unknown
from ..harness import FFT64, NTT120
from ..kernels import KERNELS, KBox
from ..report import Report
from ..values import Canon, Sym, fmt, sym
from ..vals import Aborted, NeedEnum, Ptr, Unsupported, is_int

M64 = 1 << 64


def is_D(v, k):
    """v == ashr(shl(t, 64-k), 64-k)  -> t"""
    if isinstance(v, Sym) and v.e[0] == 'ashr' and v.e[1] == 64 and v.e[3] == 64 - k:
        s = v.e[2]
        if isinstance(s, Sym) and s.e[0] == 'shl' and s.e[1] == 64 and s.e[3] == 64 - k:
            return s.e[2]
    return None


def is_C(v, k):
    """v == ashr(sub(t, D(t)), k) -> t"""
    if isinstance(v, Sym) and v.e[0] == 'ashr' and v.e[1] == 64 and v.e[3] == k:
        s = v.e[2]
        if isinstance(s, Sym) and s.e[0] == 'sub' and s.e[1] == 64:
            t = s.e[2]
            d = is_D(s.e[3], k)
            if d is not None and d is t:
                return t
    return None


def digit_norm(v, k, memo=None):
    """the other common spelling of the balanced digit, ((t & (2^k-1)) ^ 2^(k-1)) - 2^(k-1), rewritten bottom-up into the
    shift pair ashr(shl(t, 64-k), 64-k) (equal for every 64-bit t: the xor flips bit k-1 of the low k bits u, which adds
    2^(k-1) when u < 2^(k-1) and subtracts it otherwise)"""
    memo = {} if memo is None else memo
    if not isinstance(v, Sym):
        return v
    r = memo.get(v)
    if r is not None:
        return r
    e = v.e
    ne = tuple(digit_norm(x, k, memo) if isinstance(x, Sym) else x for x in e)
    r = sym(*ne) if any(a is not b for a, b in zip(ne, e)) else v
    mask, h = (1 << k) - 1, 1 << (k - 1)

    def xh(x):
        if isinstance(x, Sym) and x.e[0] == 'xor' and x.e[1] == 64:
            for a, b in ((x.e[2], x.e[3]), (x.e[3], x.e[2])):
                if is_int(b) and b % M64 == h and isinstance(a, Sym) and a.e[0] == 'and' and a.e[1] == 64:
                    for t, m in ((a.e[2], a.e[3]), (a.e[3], a.e[2])):
                        if is_int(m) and m % M64 == mask:
                            return t
        return None

    D = lambda t: sym('ashr', 64, sym('shl', 64, t, 64 - k), 64 - k)
    e = r.e
    if e[0] == 'sub' and e[1] == 64:
        t = xh(e[2])
        if t is not None and is_int(e[3]) and e[3] % M64 == h:
            r = D(t)
        else:
            t = xh(e[3])
            if t is not None and is_int(e[2]) and e[2] % M64 == h:
                r = sym('sub', 64, 0, D(t))
    elif e[0] == 'add' and e[1] == 64:
        for a, b in ((e[2], e[3]), (e[3], e[2])):
            t = xh(a)
            if t is not None and is_int(b) and b % M64 == (M64 - h):
                r = D(t)
                break
    elif e[0] == 'ashr' and e[1] == 64 and e[3] == k:
        # the carry ashr(t - D(t), k) with the difference left in another arrangement (-D(t) + t, t + (h - X), ...): the
        # signed multiset of summands minus the digit term must be exactly the summands of t
        def flat(x, sg, terms, cst):
            if is_int(x):
                cst[0] = (cst[0] + sg * x) % M64
            elif isinstance(x, Sym) and x.e[0] in ('add', 'sub') and x.e[1] == 64:
                flat(x.e[2], sg, terms, cst)
                flat(x.e[3], sg if x.e[0] == 'add' else -sg, terms, cst)
            else:
                terms[x] = terms.get(x, 0) + sg
                if not terms[x]:
                    del terms[x]
        terms, cst = {}, [0]
        flat(e[2], 1, terms, cst)
        if is_C(r, k) is None:
            for d, c in list(terms.items()):
                t = is_D(d, k) if c == -1 else None
                if t is None:
                    continue
                rest = dict(terms)
                del rest[d]
                tt, tc = {}, [0]
                flat(t, 1, tt, tc)
                if rest == tt and cst[0] == tc[0]:
                    r = sym('ashr', 64, sym('sub', 64, t, d), k)
                    break
    memo[v] = r
    return r


def concrete(v, env):
    """value of a 64-bit integer expression at a concrete point (witness search only); None outside the few operators"""
    if is_int(v):
        return v % M64
    if not isinstance(v, Sym):
        return None
    e = v.e
    if e[0] == 'in':
        return env.get((e[1], e[2]))
    if e[0] in ('add', 'sub', 'mul', 'and', 'or', 'xor', 'shl', 'lshr', 'ashr') and e[1] == 64:
        a, b = concrete(e[2], env), concrete(e[3], env)
        if a is None or b is None:
            return None
        if e[0] in ('shl', 'lshr', 'ashr') and b >= 64:
            return None
        sa = a - M64 if a >> 63 else a
        return {'add': a + b, 'sub': a - b, 'mul': a * b, 'and': a & b, 'or': a | b, 'xor': a ^ b, 'shl': a << b,
                'lshr': a >> b, 'ashr': sa >> b}[e[0]] % M64
    return None


def identity_witness(outv, coutv, k, has_cin, off):
    """a concrete (in, carry_in) at which the stored values break in + cin = digit + 2^k * carry with a balanced digit"""
    import random
    rnd = random.Random(k)
    h = 1 << (k - 1)
    pts = [0, 1, M64 - 1, h, h - 1, h + 1, M64 - h, M64 - h - 1, M64 - h + 1, (1 << 63) - 1, 1 << 63, (1 << 63) + 1, (1 << k) - 1,
           1 << k, M64 - (1 << k)] + [rnd.getrandbits(64) for _ in range(40)]
    sg = lambda z: z - M64 if z >> 63 else z
    for x in pts:
        for c in (pts[:12] if has_cin else [0]):
            env = {('in', off): x, ('carry_in', off): c}
            o = concrete(outv, env) if outv is not None else None
            co = concrete(coutv, env) if coutv is not None else None
            if (outv is not None and o is None) or (coutv is not None and co is None):
                return None
            if o is not None and not (-h <= sg(o) < h and (o - x - c) % (1 << k) == 0):
                return {'in': sg(x), 'carry_in': sg(c), 'out': sg(o)}
            if co is not None:
                d = (x + c - (co << k)) % M64
                if o is not None and d != o:
                    return {'in': sg(x), 'carry_in': sg(c), 'out': sg(o), 'carry_out': sg(co)}
                if o is None and not (-h <= sg(d) < h):
                    return {'in': sg(x), 'carry_in': sg(c), 'carry_out': sg(co)}
    return None


class Rewriter:
    """ring normal form over Z/2^64 with the carry axiom 2^k*C(t) = t - D(t)"""

    def __init__(self, k):
        self.k = k
        self.cn = Canon()
        self.unrecognised = []
        self.dsyms = {}     # atom id of D(t) -> t

    def poly(self, v):
        cn, k = self.cn, self.k
        if is_int(v):
            return {(): v % M64} if v % M64 else {}
        if not isinstance(v, Sym):
            raise ValueError('opaque')
        e = v.e
        if e[0] in ('add', 'sub') and e[1] == 64:
            return self._n(cn._padd(self.poly(e[2]), self.poly(e[3]), 1 if e[0] == 'add' else -1))
        if e[0] == 'mul' and e[1] == 64:
            return self._n(cn._pmul(self.poly(e[2]), self.poly(e[3])))
        t = is_C(v, k)
        if t is not None:
            return {(cn.atom_id(('C', cn.struct(t))),): 1}
        t = is_D(v, k)
        if t is not None:
            a = cn.atom_id(('D', cn.struct(t)))
            self.dsyms[a] = t
            return {(a,): 1}
        if e[0] == 'in':
            return {(cn.atom_id(e),): 1}
        if e[0] == 'ashr' and e[1] == 64 and e[3] == k:
            # ashr(E, k) with E = t - D(t) in whatever arrangement the compiler left it: the carry of t
            pe = self.poly(e[2])
            for (mono, c) in list(pe.items()):
                t = self.dsyms.get(mono[0]) if len(mono) == 1 and c == M64 - 1 else None
                if t is not None and self._n(cn._padd(cn._padd(pe, {mono: 1}), self.poly(t), -1)) == {}:
                    return {(cn.atom_id(('C', cn.struct(t))),): 1}
        if e[0] in ('ashr', 'shl', 'lshr'):
            self.unrecognised.append(fmt(v)[:120])
        return {(cn.atom_id(cn.struct(v)),): 1}

    def _n(self, p):
        return {m: c % M64 for m, c in p.items() if c % M64}

    def times_2k_carry(self, v):
        """2^k * v where v is a sum of C(.) terms (and plain terms): C(t) -> (t - D(t)) / 2^k * 2^k"""
        cn, k = self.cn, self.k
        if is_int(v):
            return self._n({(): (v << k)})
        e = v.e if isinstance(v, Sym) else None
        if e and e[0] in ('add', 'sub') and e[1] == 64:
            return self._n(cn._padd(self.times_2k_carry(e[2]), self.times_2k_carry(e[3]), 1 if e[0] == 'add' else -1))
        t = is_C(v, k)
        if t is not None:
            return self._n(cn._padd(self.poly(t), {(cn.atom_id(('D', cn.struct(t))),): 1}, -1))
        if e and e[0] == 'ashr' and e[1] == 64 and e[3] == k:
            pe = self.poly(e[2])
            for (mono, c) in list(pe.items()):
                t = self.dsyms.get(mono[0]) if len(mono) == 1 and c == M64 - 1 else None
                if t is not None and self._n(cn._padd(cn._padd(pe, {mono: 1}), self.poly(t), -1)) == {}:
                    return pe          # 2^k * ashr(t - D(t), k) = t - D(t): the low k bits of t - D(t) are zero
        return self._n({m: c << k for m, c in self.poly(v).items()})


def identity_check(L, R, tier):
    K = KERNELS('quick')
    box = KBox(L)
    ks = [1, 2, 19, 31, 32, 33, 52, 62] if tier == 'quick' else list(range(1, 63))
    names = sorted(n for n in K if n.startswith('znx_normalize#'))
    if len(names) != 6:
        R.broke('expected the six argument shapes of znx_normalize in the kernel contract, found %d' % len(names))
    n = 0
    forms = {}
    shared = Canon()
    for name in names:
        spec = dict(K[name])
        has_out = '#out1' in name
        has_cout = '_cout1' in name
        has_cin = '_cin1' in name
        for cpu in ('accel',):
            bad = None
            unproved = None
            for k in ks:
                sp = dict(spec)
                sp['args'] = list(spec['args'])
                sp['args'][1] = ('i', lambda s, k=k: k)
                try:
                    r = box.instantiate(name, sp, {'nn': 2}, cpu, expand='values')
                except (Unsupported, NeedEnum) as e:
                    R.broke('%s k=%d: %s' % (name, k, e))
                    continue
                if r.status != 'ok':
                    bad = bad or (k, 'call %s' % (r.status,))
                    continue
                st = final_state(r, ('out',))
                rw = Rewriter(k)
                for i in range(2):
                    off = 8 * i
                    outv = st.get('out', {}).get(off, (8, None))[1] if has_out else None
                    coutv = st.get('carry_out', {}).get(off, (8, None))[1] if has_cout else None
                    if (has_out and outv is None) or (has_cout and coutv is None):
                        bad = bad or (k, 'element %d not written' % i)
                        continue
                    nm = {}
                    outv = digit_norm(outv, k, nm) if outv is not None else None
                    coutv = digit_norm(coutv, k, nm) if coutv is not None else None
                    nbad = bad
                    try:
                        x = rw.poly(sym('in', 'in', off, 8))
                        cin = rw.poly(sym('in', 'carry_in', off, 8)) if has_cin else {}
                        lhs = rw._n(rw.cn._padd(x, cin))
                        n += 1
                        if has_out and is_D(outv, k) is None:
                            bad = bad or (k, 'out[%d] = %s is not a sign-extended k-bit digit' % (i, fmt(outv)[:100]))
                            continue
                        if has_out and has_cout:
                            rhs = rw._n(rw.cn._padd(rw.poly(outv), rw.times_2k_carry(coutv)))
                            if rhs != lhs:
                                bad = bad or (k, 'in+carry_in != out + 2^k*carry_out for element %d: out=%s carry_out=%s' % (
                                    i, fmt(outv)[:100], fmt(coutv)[:140]))
                        elif has_cout:
                            # out absent: carry_out must be the carry of the same computation: in + cin - 2^k*cout is a digit D(.)
                            d = rw._n(rw.cn._padd(lhs, rw.times_2k_carry(coutv), -1))
                            ok = len(d) == 1 and list(d.values())[0] == 1 and \
                                [kk for kk, a in rw.cn.atoms.items() if a == list(d.keys())[0][0]][0][0] == 'D'
                            if not ok:
                                bad = bad or (k, 'in+carry_in - 2^k*carry_out is not a single digit for element %d: carry_out=%s' % (
                                    i, fmt(coutv)[:140]))
                        if has_out:
                            forms.setdefault(('out', has_cin, k, i), {})[name] = shared.struct(outv)
                        if has_cout:
                            forms.setdefault(('cout', has_cin, k, i), {})[name] = shared.struct(coutv)
                    except ValueError:
                        bad = bad or (k, 'uninterpreted value stored')
                    if bad is not nbad and bad is not None and bad[0] == k and not str(bad[1]).startswith('call '):
                        # the rewriting proof did not go through: that is a verdict only with a concrete input that
                        # breaks the identity; otherwise the spelling is outside what the proof recognises (no verdict)
                        w = identity_witness(outv, coutv, k, has_cin, off)
                        if w is None:
                            unproved = unproved or (k, bad[1])
                            bad = nbad
                        else:
                            bad = (k, '%s; e.g. %s' % (bad[1], w))
                if rw.unrecognised and not bad and not unproved:
                    R.broke('digit/carry helper idiom not recognised in %s (k=%d): %s' % (name, k, rw.unrecognised[0]))
            subj = name
            if bad:
                R.ob('digit-carry-identity', subj, 'refuted', detail='k=%d: %s' % bad, key='%s:identity' % name, witness={'k': bad[0]})
            elif unproved:
                R.ob('digit-carry-identity', subj, 'unknown', detail='k=%d: no proof and no counterexample: %s' % unproved)
            else:
                R.ob('digit-carry-identity', subj, 'holds', detail='%d values of k' % len(ks))
    # shapes agree
    dis = [(key, f) for key, f in forms.items() if len(set(f.values())) > 1]
    if dis:
        key, f = dis[0]
        R.ob('argument-shapes-agree', 'znx_normalize', 'refuted',
             detail='%s[%d] differs between argument shapes %s (k=%d, carry-in %s)' % (key[0], key[3], sorted(f), key[2], key[1]),
             key='znx_normalize:shapes-differ')
    else:
        R.ob('argument-shapes-agree', 'znx_normalize', 'holds', detail='%d (output, carry-in presence, k, element) groups' % len(forms))
    return n


class Chain:
    """digit/carry chains as linear forms over Q in the atoms in(.) and D(T).

    Values are read as integers (the documented precondition |a_i| <= 2^62 keeps every carry sum inside int64; ranges are
    not decided here).  The carry is eliminated by its definition C(T) = (T - D(T)) / 2^k, and the argument of a digit is
    canonical modulo 2^k: an inner digit D(S) with an integer coefficient is replaced by S (D(S) = S mod 2^k), so that the
    two-step form of the library, D(D(x) + c) with carry C(x) + C(D(x) + c), and the one-step form D(x + c), C(x + c) have
    the same normal form, whatever the loop organisation (order of limbs per coefficient, blocking, fused passes)."""

    def __init__(self, k):
        self.k = k
        self.atoms = {}
        self.inv = {}
        self.unrecognised = []

    def atom(self, key):
        a = self.atoms.get(key)
        if a is None:
            a = len(self.atoms)
            self.atoms[key] = a
            self.inv[a] = key
        return a

    @staticmethod
    def key(p):
        return tuple(sorted(p.items()))

    def add(self, p, q, s=1):
        out = dict(p)
        for m, c in q.items():
            v = out.get(m, 0) + s * c
            if v:
                out[m] = v
            else:
                out.pop(m, None)
        return out

    def canon_mod(self, T):
        while True:
            hit = None
            for m, c in T.items():
                if len(m) == 1 and Fr(c).denominator == 1 and self.inv[m[0]][0] == 'D':
                    hit = (m, c)
                    break
            if hit is None:
                return T
            m, c = hit
            rest = {mm: cc for mm, cc in T.items() if mm != m}
            T = self.add(rest, dict(self.inv[m[0]][1]), c)

    def D(self, T):
        return {(self.atom(('D', self.key(self.canon_mod(T)))),): Fr(1)}

    def C(self, T):
        d = self.D(T)
        return {m: c / (1 << self.k) for m, c in self.add(T, d, -1).items()}

    def poly(self, v, memo):
        if is_int(v):
            v = v - M64 if v >= (M64 >> 1) else v
            return {(): Fr(v)} if v else {}
        if not isinstance(v, Sym):
            raise ValueError('opaque')
        r = memo.get(v)
        if r is not None:
            return r
        e = v.e
        t = is_C(v, self.k)
        if t is not None:
            r = self.C(self.poly(t, memo))
        else:
            t = is_D(v, self.k)
            if t is not None:
                r = self.D(self.poly(t, memo))
            elif e[0] in ('add', 'sub') and e[1] == 64:
                r = self.add(self.poly(e[2], memo), self.poly(e[3], memo), 1 if e[0] == 'add' else -1)
            elif e[0] == 'in':
                r = {(self.atom(('in', e[1], e[2], e[3])),): Fr(1)}
            else:
                if e[0] in ('ashr', 'shl', 'lshr'):
                    self.unrecognised.append(fmt(v)[:120])
                raise ValueError('uninterpreted')
        memo[v] = r
        return r


def digit_chain(L, R, tier):
    """V: every stored coefficient of the vector normalisations is the digit of the carry chain over the input limbs"""
    box = ApiBox(L)
    nruns = ncmp = 0
    big = [2048, 4096] if tier == 'quick' else [2048, 4096, 16384, 65536]
    for name in ('vec_znx_normalize_base2k', 'vec_znx_big_normalize_base2k', 'vec_znx_big_range_normalize_base2k'):
        for mtype in ([FFT64, NTT120] if name == 'vec_znx_normalize_base2k' else [FFT64]):
            for cpu in (('accel', 'generic') if mtype == FFT64 else ('accel',)):
                bad = None
                shapes = [sh for sh in shapes_for(name, tier) if sh['N'] <= 8]
                # dimensions far above the box (cache-blocking of the limb loop): a few limb counts, sampled coefficients
                base = [sh for sh in shapes if sh['N'] == 8 and sh.get('log2_base2k') == 19 and
                        (name.endswith('range_normalize_base2k') or (sh.get('res_size'), sh.get('a_size')) in ((2, 3), (3, 2), (1, 3)))]
                seen = set()
                for sh in base:
                    key = tuple(sorted((k, v) for k, v in sh.items() if k not in ('N', 'res_sl', 'a_sl')))
                    if key in seen:
                        continue
                    seen.add(key)
                    for N in big:
                        s2 = dict(sh, N=N)
                        for kk in ('res_sl', 'a_sl'):
                            if kk in s2:
                                s2[kk] = N + (sh[kk] - 8)
                        shapes.append(s2)
                for sh in shapes:
                    N = sh['N']
                    c = box.get(N, mtype, cpu, 'values')
                    c.m.record = N <= 8          # the access events are not used by this clause (and are many for large N)
                    try:
                        r = box.instantiate(name, sh, cpu, mtype, expand='values')
                    except (Unsupported, NeedEnum) as e:
                        R.broke('%s %s: %s' % (name, sh, e))
                        continue
                    finally:
                        c.m.record = True
                    nruns += 1
                    if r.status != 'ok':
                        bad = bad or (sh, 'call %s' % (r.status,))
                        continue
                    res, a = r.bufs['res'], r.bufs['a']
                    st = final_state(r, ('out',)).get('res', {})
                    if name.endswith('range_normalize_base2k'):
                        a_off = [i * a.limb for i in range(sh['a_range_begin'], sh['a_range_xend'], sh['a_range_step'])]
                    else:
                        a_off = [i * a.stride for i in range(a.nlimbs)]
                    asz, rsz = len(a_off), res.nlimbs
                    k = sh['log2_base2k']
                    ch = Chain(k)
                    memo = {}
                    js = range(N) if N <= 8 else sorted({0, 1, 1023, 1024, 1025, N // 2 - 1, N // 2, N - 1})
                    for j in js:
                        T = None
                        exp = {}
                        for i in range(asz - 1, -1, -1):
                            x = {(ch.atom(('in', 'a', a_off[i] + 8 * j, 8)),): Fr(1)}
                            T = x if T is None else ch.add(x, ch.C(T))
                            if i < rsz:
                                exp[i] = ch.D(T)
                        for i in range(rsz):
                            e = st.get(i * res.stride + 8 * j)
                            if e is None or e[0] != 8:
                                bad = bad or (sh, 'limb %d coefficient %d not written as one word' % (i, j))
                                continue
                            ncmp += 1
                            try:
                                got = ch.poly(digit_norm(e[1], ch.k), memo)
                            except ValueError:
                                R.broke('%s %s: limb %d coefficient %d holds a value outside the digit/carry algebra: %s' % (
                                    name, sh, i, j, (ch.unrecognised or [fmt(e[1])[:100]])[0]))
                                ch.unrecognised = []
                                continue
                            if got != exp.get(i, {}):
                                bad = bad or (sh, 'limb %d coefficient %d = %s is not the digit of the carry chain over input limbs %d..%d' % (
                                    i, j, fmt(e[1])[:160], i, asz - 1) if i < asz else
                                    (sh, 'limb %d (beyond the input) coefficient %d = %s, expected 0' % (i, j, fmt(e[1])[:100])))
                subj = '%s [%s,%s]' % (name, 'fft64' if mtype == FFT64 else 'ntt120', cpu)
                if bad:
                    R.ob('limbs-are-the-digits-of-the-carry-chain', subj, 'refuted', detail=bad[1], key='%s:digit-chain' % name,
                         witness=dict(bad[0], cpu=cpu))
                else:
                    R.ob('limbs-are-the-digits-of-the-carry-chain', subj, 'holds', detail='%d shapes (N up to %d)' % (len(shapes), max(big)))
    return nruns, ncmp


def idiom_range(v, k, atom, findings, memo):
    """signed range of a digit/carry expression read over the integers; records every add/sub whose exact result leaves
    int64 (the wrap inside the digit idiom shl/ashr is intentional and is not an arithmetic overflow)"""
    if is_int(v):
        v = v - M64 if v >= (M64 >> 1) else v
        return (v, v)
    if not isinstance(v, Sym):
        return None
    r = memo.get(v)
    if r is not None:
        return r
    e = v.e
    H = 1 << 63
    t = is_C(v, k)
    if t is not None:
        rt = idiom_range(t, k, atom, findings, memo)
        if rt is None:
            r = None
        else:
            d = (-(1 << (k - 1)), (1 << (k - 1)) - 1)
            lo, hi = rt[0] - d[1], rt[1] - d[0]          # t - D(t)
            if lo < -H or hi >= H:
                findings.append('t - digit(t) leaves int64 for t in [%d, %d]' % rt)
            r = (lo >> k, hi >> k)
    else:
        t = is_D(v, k)
        if t is not None:
            rt = idiom_range(t, k, atom, findings, memo)
            r = None if rt is None else (max(rt[0], -(1 << (k - 1))) if rt[0] >= -(1 << (k - 1)) and rt[1] < (1 << (k - 1)) else -(1 << (k - 1)),
                                         min(rt[1], (1 << (k - 1)) - 1) if rt[0] >= -(1 << (k - 1)) and rt[1] < (1 << (k - 1)) else (1 << (k - 1)) - 1)
        elif e[0] in ('add', 'sub') and e[1] == 64:
            a, b = idiom_range(e[2], k, atom, findings, memo), idiom_range(e[3], k, atom, findings, memo)
            if a is None or b is None:
                r = None
            else:
                r = (a[0] + b[0], a[1] + b[1]) if e[0] == 'add' else (a[0] - b[1], a[1] - b[0])
                if r[0] < -H or r[1] >= H:
                    findings.append('%s of [%d, %d] and [%d, %d] leaves int64' % (e[0], a[0], a[1], b[0], b[1]))
                    r = (-H, H - 1)
        elif e[0] == 'in':
            r = atom(e)
        else:
            r = None
    memo[v] = r
    return r


def range_check(L, R, tier):
    """O: with |in| <= 2^62 and the carry-in inside an inductive bound B_k (the carry-out of every argument shape stays inside
    it), no addition or subtraction of the primitive leaves int64: the digit/carry chain is a statement about integers"""
    K = KERNELS('quick')
    box = KBox(L)
    ks = [1, 2, 3, 19, 32, 61, 62] if tier == 'quick' else list(range(1, 63))
    names = sorted(n for n in K if n.startswith('znx_normalize#'))
    n = 0
    for k in ks:
        runs = {}
        for name in names:
            sp = dict(K[name])
            sp['args'] = list(K[name]['args'])
            sp['args'][1] = ('i', lambda s, k=k: k)
            try:
                r = box.instantiate(name, sp, {'nn': 1}, 'accel', expand='values')
            except (Unsupported, NeedEnum) as e:
                R.broke('%s k=%d: %s' % (name, k, e))
                continue
            if r.status == 'ok':
                runs[name] = final_state(r, ('out',))
        B = 1 << 62
        bad = None
        for it in range(6):
            worst = 0
            finds = []
            for name, st in runs.items():
                for buf in ('out', 'carry_out'):
                    e = st.get(buf, {}).get(0)
                    if e is None:
                        continue
                    memo = {}
                    rg = idiom_range(digit_norm(e[1], k), k, lambda a, B=B: (-(1 << 62), 1 << 62) if a[1] == 'in' else (-B, B), finds, memo)
                    n += 1
                    if rg is None:
                        R.broke('%s k=%d: %s outside the digit/carry algebra' % (name, k, buf))
                        continue
                    if buf == 'carry_out':
                        worst = max(worst, abs(rg[0]), abs(rg[1]))
                    elif rg[0] < -(1 << (k - 1)) or rg[1] >= (1 << (k - 1)):
                        bad = bad or '%s: out is not known to lie in [-2^(k-1), 2^(k-1))' % name
            if finds:
                bad = bad or finds[0]
                break
            if worst <= B:
                break
            B = worst
        else:
            bad = bad or 'no inductive carry bound found'
        subj = 'znx_normalize k=%d' % k
        if bad:
            R.ob('digit-chain-stays-inside-int64', subj, 'refuted', detail=bad, key='znx_normalize:range:k=%d' % k, witness={'k': k})
        else:
            R.ob('digit-chain-stays-inside-int64', subj, 'holds', detail='carry bound %d (2^62 + %d)' % (B, B - (1 << 62)))
    return n


def loop_structure(L, R, tier, value_refuted=()):
    box = ApiBox(L)
    nruns = 0
    for name in ('vec_znx_normalize_base2k', 'vec_znx_big_normalize_base2k', 'vec_znx_big_range_normalize_base2k'):
        for mtype in ([FFT64, NTT120] if name == 'vec_znx_normalize_base2k' else [FFT64]):
            for cpu in (('accel', 'generic') if mtype == FFT64 else ('accel',)):
                bad = None
                shapes = shapes_for(name, tier)
                for sh in shapes:
                    c = box.get(sh['N'], mtype, cpu, True)
                    c.m.trace_names = {'znx_normalize', 'znx_zero_i64_ref'}
                    c.m.trace = []
                    try:
                        r = box.instantiate(name, sh, cpu, mtype, expand=True)
                    except (Unsupported, NeedEnum) as e:
                        R.broke('%s %s: %s' % (name, sh, e))
                        continue
                    finally:
                        tr = c.m.trace
                        c.m.trace_names = set()
                    nruns += 1
                    if r.status != 'ok':
                        bad = bad or (sh, 'call %s' % (r.status,))
                        continue
                    N = sh['N']
                    res, a, tmp = r.bufs['res'], r.bufs['a'], r.bufs.get('tmp_space')
                    if name.endswith('range_normalize_base2k'):
                        idx = list(range(sh['a_range_begin'], sh['a_range_xend'], sh['a_range_step']))
                        a_off = [i * a.limb for i in idx]
                    else:
                        a_off = [i * a.stride for i in range(a.nlimbs)]
                    asz, rsz = len(a_off), res.nlimbs
                    calls = [t for t in tr if t[0] == 'znx_normalize']
                    zeros = [t for t in tr if t[0] == 'znx_zero_i64_ref']
                    exp_calls = asz if (asz > 0 and rsz > 0) else 0
                    if len(calls) != exp_calls:
                        bad = bad or (sh, '%d digit passes for %d input limbs (res_size=%d)' % (len(calls), asz, rsz))
                        continue
                    prev_cout = None
                    for q, (_, args, _) in enumerate(calls):
                        limb = asz - 1 - q
                        nn, k, out, cout, inp, cin = args
                        if not (isinstance(inp, Ptr) and inp.obj is a.ptr.obj and inp.off == a_off[limb]):
                            bad = bad or (sh, 'pass %d reads %r instead of input limb %d' % (q, inp, limb))
                            break
                        if limb >= rsz:
                            if not (is_int(out) and out == 0):
                                bad = bad or (sh, 'dropped limb %d is written to the output' % limb)
                        else:
                            if not (isinstance(out, Ptr) and out.obj is res.ptr.obj and out.off == limb * res.stride):
                                bad = bad or (sh, 'limb %d written to %r' % (limb, out))
                        if q == 0:
                            if not (is_int(cin) and cin == 0):
                                bad = bad or (sh, 'first pass has a carry-in')
                        else:
                            if not (isinstance(cin, Ptr) and isinstance(prev_cout, Ptr) and cin.obj is prev_cout.obj and cin.off == prev_cout.off):
                                bad = bad or (sh, 'pass %d does not take the carry produced by pass %d' % (q, q - 1))
                        if limb == 0:
                            if not (is_int(cout) and cout == 0):
                                bad = bad or (sh, 'most significant limb produces a carry-out buffer')
                        else:
                            if not (isinstance(cout, Ptr) and tmp is not None and cout.obj is tmp.ptr.obj and cout.off == 0):
                                bad = bad or (sh, 'carry of limb %d is not kept in the first N*8 scratch bytes' % limb)
                        prev_cout = cout
                    zl = sorted(t[1][1].off // res.stride for t in zeros if isinstance(t[1][1], Ptr) and t[1][1].obj is res.ptr.obj)
                    want_zero = list(range(asz if rsz > 0 and asz > 0 else 0, rsz)) if asz > 0 else list(range(rsz))
                    if zl != want_zero:
                        bad = bad or (sh, 'zero-extended limbs %s, expected %s' % (zl, want_zero))
                    # the range variant must read exactly the selected limbs
                    if rsz > 0 and asz > 0:
                        rd = []
                        for e in r.events:
                            if e.kind == 'R' and e.obj is a.ptr.obj:
                                rd += RG.event_intervals(e)
                        if RG.normalize(rd) != RG.normalize([(o, o + 8 * N) for o in a_off]):
                            bad = bad or (sh, 'input bytes read %s differ from the selected limbs' % RG.normalize(rd)[:3])
                subj = '%s [%s,%s]' % (name, 'fft64' if mtype == FFT64 else 'ntt120', cpu)
                if bad and subj in value_refuted:
                    R.ob('limb-loop-structure', subj, 'refuted', detail=bad[1], key='%s:limb-loop' % name, witness=dict(bad[0], cpu=cpu))
                elif bad:
                    # the recorded loop organisation is a description of today's code, not a requirement: another organisation
                    # that stores the same digits (clause V) is not a violation
                    R.info.append('%s: loop organisation differs from the recorded one (%s); the stored values are decided by the '
                                  'digit-chain clause' % (subj, bad[1]))
                    R.ob('limb-loop-structure', subj, 'holds', detail='organisation differs from the recorded one; values agree')
                else:
                    R.ob('limb-loop-structure', subj, 'holds', detail='%d shapes' % len(shapes))
    return nruns


def run(tier):
    R = Report('C05', tier)
    L = ctx.lib()
    n1 = identity_check(L, R, tier)
    n3, n4 = digit_chain(L, R, tier)
    n5 = range_check(L, R, tier)
    R.floor('range evaluations of the primitive (argument shape x k x bound iteration)', n5, 50)
    vref = {o['subject'] for o in R.obligations if o['rule'] == 'limbs-are-the-digits-of-the-carry-chain' and o['status'] != 'holds'}
    n2 = loop_structure(L, R, tier, vref)
    R.floor('value-mode instantiations for the digit-chain clause', n3, 1000)
    R.floor('stored coefficients compared with the digit of the carry chain', n4, 20000)
    R.evaluations = n1 + n2 + n3
    R.floor('identity instances (argument shape x k x element)', n1, 90)
    R.floor('limb-loop instantiations', n2, 1000)
    R.rules.append('evaluation = one identity instance or one ordered instantiation of a vector normalisation')
    R.assumptions += ['D(t) = ashr(shl(t,64-k),64-k) is the sign-extended k-bit digit and 2^k*ashr(t-D(t),k) = t-D(t) in Z/2^64 '
                      '(pure bit-vector facts, independent of the data)',
                      'integer ranges (no int64 overflow of the carry sums for |a_i| <= 2^62) are not decided']
    return R.finish('E4 rewriting proof of in+cin = out+2^k*cout per argument shape and k; ordered E3 call trace of the limb loop.')
