"""C02 — vector-matrix product equals the naive polynomial product for all shapes.

NOT decided: that the transform-domain dot product equals the product in Z[X]/(X^N+1) within the error budget (this is
C01/C06's numeric core).
Decided, for every N of the box (both prepared layouts: N < 8 column-major, N >= 8 blocks of 4 with column pairs and a
lone last column), every nrows x ncols >= 1x1 of the box, every (a_size, res_size) incl. 0, both CPU paths:
 P  prepared layout agreement: vmp_prepare_contiguous stores, for every matrix entry (r,c), exactly the N values the
    module's own forward transform produces for that polynomial (expressions equal to those of vec_znx_dft on the same
    data), each once, filling the whole PMAT object: this *derives* the layout map offset -> (row, column, index) from
    the producer.  vmp_apply_dft_to_dft, given an abstract PMAT and abstract DFT rows, stores in output column j, index
    k, exactly  sum_{r < min(nrows,a_size)} a_dft[r][k] * pmat[(r,j,k)]  (complex product, as a polynomial over the
    reals) with pmat[(r,j,k)] read at the offsets of the producer's map - so producer and consumer agree on the layout
    for odd/even column counts and the 'pair, ignore second' case ncols > res_size.
 Z  columns >= min(ncols,res_size) are exact zeros; with no usable row every column is zero.
 E  entry-point equivalence: vmp_apply_dft(a) stores the same expressions as vmp_apply_dft_to_dft(vec_znx_dft(a)) with
    the same (pmat, nrows, ncols); its scratch split and bounds are checked by C11.
The reference and AVX variants are both covered (CPU paths) and compared with each other under C07."""
import itertools

from .. import ctx
from ..equiv import has_unknown
from ..harness import FFT64
from ..report import Report
from ..session import Session
from ..values import Canon, fmt, sym
from ..vals import NeedEnum, Unsupported


def IN(cn, name, off):
    return cn.real(sym('in', name, off, 8))


def derive_layout(L, N, nrows, ncols, cpu, cn):
    """offset in pmat -> (r, c, t) from the producer; returns (map, error string)"""
    s = Session(L, N, cpu)
    nb = 8 * N * nrows * ncols
    mat = s.buf('mat', nb, 'in')
    pm_bytes = s.size('bytes_of_vmp_pmat', [nrows, ncols])
    pmat = s.buf('pmat', pm_bytes, 'out')
    tmp = s.buf('tmp', s.size('vmp_prepare_contiguous_tmp_bytes', [nrows, ncols]), 'scratch')
    st, _ = s.call('vmp_prepare_contiguous', [s.mod, pmat, mat, nrows, ncols, tmp])
    if st != 'ok':
        return None, 'vmp_prepare_contiguous: %s' % (st,)
    P = s.state(pmat)
    dres = s.buf('dres', s.size('bytes_of_vec_znx_dft', [nrows * ncols]), 'out')
    st, _ = s.call('vec_znx_dft', [s.mod, dres, nrows * ncols, mat, nrows * ncols, N])
    if st != 'ok':
        return None, 'vec_znx_dft: %s' % (st,)
    D = s.state(dres)
    bykey = {}
    for off, (sz, v) in D.items():
        if sz != 8:
            return None, 'reference transform wrote a %d-byte value' % sz
        k = cn.key(v)
        if k in bykey:
            return None, 'reference transform values are not distinct (offsets %d and %d)' % (bykey[k], off)
        bykey[k] = off
    lay = {}
    seen = set()
    if pm_bytes != nb:
        return None, 'bytes_of_vmp_pmat = %d, expected %d' % (pm_bytes, nb)
    for off in range(0, pm_bytes, 8):
        e = P.get(off)
        if e is None or e[0] != 8:
            return None, 'PMAT byte %d is not written as one double' % off
        d = bykey.get(cn.key(e[1]))
        if d is None:
            return None, 'PMAT+%d holds %s, which is not a transform value of any matrix entry' % (off, fmt(e[1])[:100])
        idx, t = divmod(d // 8, N)
        r, c = divmod(idx, ncols)
        if (r, c, t) in seen:
            return None, 'transform value (%d,%d,%d) stored twice' % (r, c, t)
        seen.add((r, c, t))
        lay[off] = (r, c, t)
    if len(seen) != N * nrows * ncols:
        return None, 'only %d of %d transform values stored' % (len(seen), N * nrows * ncols)
    return lay, None


def check_apply(L, N, nrows, ncols, a_size, res_size, cpu, lay, cn):
    m = N // 2
    inv = {v: k for k, v in lay.items()}
    s = Session(L, N, cpu)
    adft = s.buf('a_dft', s.size('bytes_of_vec_znx_dft', [a_size]), 'in')
    pmat = s.buf('pmat', s.size('bytes_of_vmp_pmat', [nrows, ncols]), 'in')
    res = s.buf('res', s.size('bytes_of_vec_znx_dft', [res_size]), 'out')
    tmp = s.buf('tmp', s.size('vmp_apply_dft_to_dft_tmp_bytes', [res_size, a_size, nrows, ncols]), 'scratch')
    st, _ = s.call('vmp_apply_dft_to_dft', [s.mod, res, res_size, adft, a_size, pmat, nrows, ncols, tmp])
    if st != 'ok':
        return 'vmp_apply_dft_to_dft: %s' % (st,), 0
    S = s.state(res)
    rows = min(nrows, a_size)
    cols = min(ncols, res_size) if rows > 0 else 0
    n = 0
    for j in range(res_size):
        for k in range(m):
            for part in (0, 1):
                off = 8 * (j * N + part * m + k)
                e = S.get(off)
                if e is None or e[0] != 8:
                    return 'res column %d index %d not written' % (j, k), n
                v = e[1]
                if j >= cols:
                    if not (isinstance(v, (int, float)) and v == 0):
                        return 'res column %d (beyond the matrix / without input rows) holds %s instead of zero' % (j, fmt(v)[:60]), n
                    continue
                if has_unknown(v):
                    return 'res column %d index %d holds an uninterpreted value' % (j, k), n
                exp = {}
                for r in range(rows):
                    ar, ai = IN(cn, 'a_dft', 8 * (r * N + k)), IN(cn, 'a_dft', 8 * (r * N + m + k))
                    pr, pi = IN(cn, 'pmat', inv[(r, j, k)]), IN(cn, 'pmat', inv[(r, j, m + k)])
                    if part == 0:
                        t = cn._padd(cn._pmul(ar, pr), cn._pmul(ai, pi), -1)
                    else:
                        t = cn._padd(cn._pmul(ar, pi), cn._pmul(ai, pr))
                    exp = cn._padd(exp, t)
                n += 1
                if cn.real(v) != exp:
                    return 'res column %d index %d (%s) = %s is not sum_r a_dft[r]*pmat[r][%d] under the producer layout' % (
                        j, k, 'im' if part else 're', fmt(v)[:160], j), n
    return None, n


def check_equiv(L, N, nrows, ncols, a_size, res_size, a_sl, cpu, cn):
    s = Session(L, N, cpu)
    a = s.buf('a', ((a_size - 1) * a_sl + N) * 8 if a_size else 0, 'in')
    pmat = s.buf('pmat', s.size('bytes_of_vmp_pmat', [nrows, ncols]), 'in')
    res1 = s.buf('res1', s.size('bytes_of_vec_znx_dft', [res_size]), 'out')
    tmp1 = s.buf('tmp1', s.size('vmp_apply_dft_tmp_bytes', [res_size, a_size, nrows, ncols]), 'scratch')
    st, _ = s.call('vmp_apply_dft', [s.mod, res1, res_size, a, a_size, a_sl, pmat, nrows, ncols, tmp1])
    if st != 'ok':
        return 'vmp_apply_dft: %s' % (st,), 0
    adft = s.buf('adft', s.size('bytes_of_vec_znx_dft', [a_size]), 'out')
    st, _ = s.call('vec_znx_dft', [s.mod, adft, a_size, a, a_size, a_sl])
    if st != 'ok':
        return 'vec_znx_dft: %s' % (st,), 0
    res2 = s.buf('res2', s.size('bytes_of_vec_znx_dft', [res_size]), 'out')
    tmp2 = s.buf('tmp2', s.size('vmp_apply_dft_to_dft_tmp_bytes', [res_size, a_size, nrows, ncols]), 'scratch')
    st, _ = s.call('vmp_apply_dft_to_dft', [s.mod, res2, res_size, adft, a_size, pmat, nrows, ncols, tmp2])
    if st != 'ok':
        return 'vmp_apply_dft_to_dft: %s' % (st,), 0
    S1, S2 = s.state(res1), s.state(res2)
    n = 0
    if set(S1) != set(S2):
        return 'the two entry points write different parts of res', 0
    for off in sorted(S1):
        n += 1
        v1, v2 = S1[off][1], S2[off][1]
        try:
            k1, k2 = cn.key(v1), cn.key(v2)
        except OverflowError:
            continue
        if k1 != k2:
            return 'res+%d: integer entry point stores %s, transform entry point stores %s' % (off, fmt(v1)[:120], fmt(v2)[:120]), n
    return None, n


def accumulation_depth(L, N, nrows, cpu):
    """largest number of roundings on a path of the row accumulation of vmp_apply_dft_to_dft (fma counted twice), read off the
    expressions it stores for an nrows x 2 matrix"""
    from .C01 import _depth
    s = Session(L, N, cpu)
    adft = s.buf('a_dft', s.size('bytes_of_vec_znx_dft', [nrows]), 'in')
    pmat = s.buf('pmat', s.size('bytes_of_vmp_pmat', [nrows, 2]), 'in')
    res = s.buf('res', s.size('bytes_of_vec_znx_dft', [2]), 'out')
    tmp = s.buf('tmp', s.size('vmp_apply_dft_to_dft_tmp_bytes', [2, nrows, nrows, 2]), 'scratch')
    st, _ = s.call('vmp_apply_dft_to_dft', [s.mod, res, 2, adft, nrows, pmat, nrows, 2, tmp])
    if st != 'ok':
        return None
    memo = {}
    d = 0
    for off, (sz, v) in s.state(res).items():
        d = max(d, _depth(v, memo))
    return d


def error_budget(L, R, tier):
    """B: column j = sum_i a_i * M[i][j] within the sum over the rows of the C01 budget.  With the transforms' a-priori bounds
    rho_f, rho_i (C06 clause E) and d(r) roundings on the longest path of the r-row accumulation, the error before the final
    rounding is at most sum_i [rho_f + (sqrt(2)*gamma_d(r) + rho_i)/2] * (|a_i|_1 ||M_ij||_2 + ||a_i||_2 |M_ij|_1); the bracket
    is compared with 8*log2(N)*2^-53 for every (N, nrows) of a grid and the proved pairs are listed (the others are not
    decided: the accumulation over many rows and the largest N leave no margin)."""
    from concurrent.futures import ProcessPoolExecutor
    from math import log2, sqrt
    from .C06 import _error_bound_job
    Ns = [4, 16, 64, 256] if tier == 'quick' else [4, 8, 16, 32, 64, 128, 256, 512, 1024]
    rows = [1, 2, 3, 4] if tier == 'quick' else [1, 2, 3, 4, 6, 8]
    jobs = [(nm, N // 2, cpu) for N in Ns for nm in ('reim_fft', 'reim_ifft') for cpu in ('generic', 'accel')]
    with ProcessPoolExecutor(max_workers=min(12, len(jobs))) as ex:
        res = dict(zip(jobs, ex.map(_error_bound_job, jobs)))
    u = 2.0 ** -53
    n = 0
    for cpu in ('generic', 'accel'):
        proved = {}
        unk = None
        for N in Ns:
            rf, ri = res[('reim_fft', N // 2, cpu)], res[('reim_ifft', N // 2, cpu)]
            if rf[0] != 'ok' or ri[0] != 'ok':
                unk = unk or 'N=%d: transform bound not established' % N
                continue
            best = 0
            for r in rows:
                try:
                    d = accumulation_depth(L, N, r, cpu)
                except (Unsupported, NeedEnum) as e:
                    R.broke('accumulation depth N=%d rows=%d: %s' % (N, r, e))
                    d = None
                n += 1
                if d is None or d > 64:
                    break
                gm = d / (1 - d * u)
                total = rf[1] + (sqrt(2) * gm + ri[1]) * (1 + rf[1] * u) / 2
                if total <= 8 * log2(N):
                    best = r
                else:
                    break
            proved[N] = best
        R.extra.setdefault('error_budget_rows', {})[cpu] = {str(k): v for k, v in proved.items()}
        subj = 'vmp pipelines [%s]' % cpu
        if unk or not proved or min(proved.values()) < 1:
            R.ob('a-priori-vmp-error-within-the-summed-budget', subj, 'unknown',
                 detail=unk or 'no row count proved for N in %s' % [k for k, v in proved.items() if v < 1])
        else:
            R.ob('a-priori-vmp-error-within-the-summed-budget', subj, 'holds',
                 detail='proved for (N: up to nrows) %s; larger row counts / N are not decided' % proved)
    return n


def run(tier):
    R = Report('C02', tier)
    L = ctx.lib()
    Ns = [2, 4, 8, 16] if tier == 'quick' else [2, 4, 8, 16, 32]
    rdims = [1, 2, 3] if tier == 'quick' else [1, 2, 3, 5]
    cdims = [1, 2, 3, 4, 5, 6] if tier == 'quick' else [1, 2, 3, 4, 5, 6, 7, 9]
    asizes = [0, 1, 2, 3] if tier == 'quick' else [0, 1, 2, 3, 4, 6]
    rsizes = [0, 1, 2, 3, 4, 5, 6] if tier == 'quick' else [0, 1, 2, 3, 4, 5, 6, 7, 8, 10]
    nlay = napp = neq = ncmp = 0
    for cpu in ('accel', 'generic'):
        badP = badA = badE = None
        for N in Ns:
            cn = Canon()
            for nrows, ncols in itertools.product(rdims, cdims):
                try:
                    lay, err = derive_layout(L, N, nrows, ncols, cpu, cn)
                except (Unsupported, NeedEnum) as e:
                    R.broke('layout N=%d %dx%d: %s' % (N, nrows, ncols, e))
                    continue
                nlay += 1
                if err:
                    badP = badP or ({'N': N, 'nrows': nrows, 'ncols': ncols}, err)
                    continue
                for a_size, res_size in itertools.product(asizes, rsizes):
                    if tier == 'quick' and (N == 16 or N == 2) and (a_size > 2 or nrows > 2):
                        continue
                    if tier == 'quick' and N == 4 and a_size == 3:
                        continue
                    sh = {'N': N, 'nrows': nrows, 'ncols': ncols, 'a_size': a_size, 'res_size': res_size}
                    try:
                        err, n = check_apply(L, N, nrows, ncols, a_size, res_size, cpu, lay, cn)
                    except (Unsupported, NeedEnum) as e:
                        R.broke('apply %s: %s' % (sh, e))
                        continue
                    napp += 1
                    ncmp += n
                    if err:
                        badA = badA or (sh, err)
                    if N <= 8 and nrows <= 2 and ncols <= 3 and a_size <= 2 and res_size <= 3:
                        for a_sl in (N, N + 1):
                            try:
                                err, n = check_equiv(L, N, nrows, ncols, a_size, res_size, a_sl, cpu, cn)
                            except (Unsupported, NeedEnum) as e:
                                R.broke('equivalence %s: %s' % (sh, e))
                                continue
                            neq += 1
                            ncmp += n
                            if err:
                                badE = badE or (dict(sh, a_sl=a_sl), err)
        for rule, bad, key in (('prepare-stores-the-transform-of-every-entry-once', badP, 'vmp_prepare_contiguous:layout'),
                               ('apply-is-the-dot-product-under-the-producer-layout', badA, 'vmp_apply_dft_to_dft:layout'),
                               ('integer-and-transform-entry-points-agree', badE, 'vmp_apply_dft:equivalence')):
            subj = 'vmp [%s]' % cpu
            if bad:
                R.ob(rule, subj, 'refuted', detail=bad[1], key=key, witness=dict(bad[0], cpu=cpu))
            else:
                R.ob(rule, subj, 'holds')
    nb = error_budget(L, R, tier)
    R.floor('accumulation kernels measured for the error budget', nb, 8)
    R.evaluations = nlay + napp + neq + nb
    R.floor('layouts derived from the producer', nlay, 120)
    R.floor('apply instantiations compared with the bilinear definition', napp, 2000)
    R.floor('entry-point equivalence instantiations', neq, 200)
    R.floor('stored values compared', ncmp, 30000)
    R.extra['values_compared'] = ncmp
    R.rules.append('evaluation = one (N, nrows, ncols[, a_size, res_size]) instantiation in value mode')
    R.assumptions += ['the forward transform itself (that its values are the DFT of the polynomial) is C06; here only that prepare '
                      'stores the module transform of each entry and apply combines them as the complex dot product',
                      'N <= 16 (quick) / 32 (thorough): both prepared layouts and the m/4 block loop are covered']
    return R.finish('E4: layout map derived from the producer by expression identity with the module transform; consumer checked as '
                    'a real-polynomial identity against the complex dot product under that map; entry points compared by normal form.')
