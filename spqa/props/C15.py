"""C15 — results depend only on the arguments: no hidden state, history or alignment dependence.

Decided statically (valid for every call history because nothing here depends on one):
 (a) writable static state: every mutable global of the library is a verified memoisation cache of a *_simple
     function (rules b and C12/R2); a global that is written and read by library code outside that pattern is hidden
     state.  Functions that take a MODULE/PRECOMP never read or write any of them (shared with C12/R1).
 (b) cache keys: for every *_simple function, each of its arguments on which the constructed table depends
     (data-flows into a stored field, an allocation size, the returned object or a branch between two normally
     continuing paths of the constructor - validation-only parameters do not count) is part of the key: it selects
     the slot or is compared with a stored copy in the guard that decides to rebuild.
 (e) no alignment-dependent path: the region engine (E3) leaves the low address bits of every caller buffer unknown and
     reports every branch / select decided by them (module API on its shape box, every kernel contract entry).
 (d) no alignment dependence: no alignment-sensitive load/store (IR alignment above the natural alignment of the
     scalar element) on memory provided by the caller through a data or scratch parameter, over every exported
     entry point and all dispatch candidates.
 (h) history independence of the cached convenience API: for every *_simple function, every sequence of three (thorough:
     four) calls over a box of parameter tuples (two dimensions x two values of every other parameter) is instantiated in
     one machine (the static cache persists between the calls) and the table handed to the kernel by the last call -
     dispatch pointer, dimension, divisor and every other scalar field - must equal the table a fresh process builds for
     the same arguments.
 (c) 'outputs do not depend on previous contents of out/scratch' is decided by the region engine and reported
     under C11 (read-before-write of scratch/out); it is referenced, not repeated, here."""
from .. import ctx
from ..caches import analyse_cache_functions
from ..report import Report
from ..roles import roles_of
from ..vals import Aborted, NeedEnum, Unsupported


def rule_b(L, G, E, R, prefix=''):
    cs = analyse_cache_functions(L, G, E)
    for C in cs:
        subj = prefix + C.f.name
        an = [a['name'] for a in C.f.d.get('dbgargs', [])] or [str(k) for k in range(len(C.f.args))]
        missing = sorted(C.ctor_deps - C.key_args)
        if not C.ctor_calls:
            R.ob('cache-key-covers-constructor-parameters', subj, 'unknown',
                 detail='static written without a recognisable constructor call')
            continue
        if missing:
            live = [x for x in C.slot_candidates
                    if (L.fn(x) is not None and not E.summ[L.fn(x).key].always_aborts)]
            if not live and C.slot_candidates:
                R.ob('cache-key-covers-constructor-parameters', subj, 'holds', nontrivial=False,
                     detail='key misses %s but every kernel behind the table aborts (NOT_IMPLEMENTED): no result exists' % [
                         an[k] for k in missing])
                R.note('%s: cache keyed by %s while the table depends on %s; exempt only while all kernels %s abort' % (
                    C.f.name, [an[k] for k in sorted(C.key_args)], [an[k] for k in sorted(C.ctor_deps)],
                    sorted(C.slot_candidates)))
            else:
                R.ob('cache-key-covers-constructor-parameters', subj, 'refuted',
                     detail='%s memoises a table that depends on %s but the cache key is only %s' % (
                         C.f.name, [an[k] for k in sorted(C.ctor_deps)], [an[k] for k in sorted(C.key_args)]),
                     key='%s:cache-key-misses:%s' % (C.f.name, '+'.join(an[k] for k in missing)),
                     loc=C.guards[0][2] if C.guards else C.f.loc,
                     witness={'constructor': [t.name for _, t in C.ctor_calls], 'key_args': [an[k] for k in sorted(C.key_args)],
                              'table_depends_on': [an[k] for k in sorted(C.ctor_deps)]})
        else:
            R.ob('cache-key-covers-constructor-parameters', subj, 'holds',
                 detail='key %s covers %s' % ([an[k] for k in sorted(C.key_args)], [an[k] for k in sorted(C.ctor_deps)]))
    return cs


def rule_a(L, G, E, R, cs, prefix=''):
    cache_globals = {}
    for C in cs:
        if C.ctor_calls and C.guards and not C.unguarded:
            for g in C.globals:
                cache_globals.setdefault(g, []).append(C.f.name)
    writers = {}
    readers = {}
    for f in L.functions.values():
        S = E.summ[f.key]
        for r in S.writes:
            if r[0] == 'glob':
                writers.setdefault((r[1], r[2]), set()).add(f.name)
        for r in S.reads:
            if r[0] == 'glob':
                readers.setdefault((r[1], r[2]), set()).add(f.name)
    n = 0
    for k, g in sorted(L.globals.items(), key=str):
        if g['const']:
            continue
        n += 1
        subj = prefix + '%s:%s' % (k[0], k[1])
        if k in cache_globals:
            R.ob('mutable-static-is-a-verified-cache', subj, 'holds', detail='cache of %s' % cache_globals[k])
        elif k in writers:
            R.ob('mutable-static-is-a-verified-cache', subj, 'refuted',
                 detail='static `%s` is written by %s%s and is not a memoisation cache' % (
                     k[1], sorted(writers[k])[:3], (' and read by %s' % sorted(readers.get(k, []))[:3]) if k in readers else ''),
                 key='%s:hidden-static' % k[1])
        else:
            R.ob('mutable-static-is-a-verified-cache', subj, 'holds', nontrivial=False, detail='never written')
    return n


def rule_d(L, E, R, prefix=''):
    n = 0
    for f in sorted(L.exported(), key=lambda f: f.name):
        roles, src = roles_of(f)
        if roles is None:
            continue
        S = E.summ[f.key]
        if S.always_aborts:
            continue
        for j, ro in enumerate(roles):
            if ro not in ('in', 'out', 'inout', 'scratch'):
                continue
            n += 1
            an = f.d['dbgargs'][j]['name'] if f.d.get('dbgargs') else str(j)
            r = ('arg', j, 0)
            subj = '%s%s(%s)' % (prefix, f.name, an)
            if r in S.aligned:
                R.ob('no-aligned-access-on-caller-buffer', subj, 'refuted',
                     detail='alignment-sensitive vector access on caller buffer `%s` of %s' % (an, f.name),
                     key='%s:%s:aligned-access' % (f.name, an), loc=S.aligned_sites[r][0][1] if S.aligned_sites.get(r) else f.loc,
                     witness={'sites': S.aligned_sites.get(r, [])[:4]})
            else:
                R.ob('no-aligned-access-on-caller-buffer', subj, 'holds')
    return n


def history_independence(L, R, cs, tier):
    """(h) cached tables equal freshly built tables after any call sequence of the box"""
    import itertools
    import re
    from ..harness import Ctx
    from ..machine import Runaway
    from ..trusted import TRUSTED
    from ..vals import Aborted, FnPtr, NeedEnum, Ptr, Unsupported, is_int
    nseq = 0
    for C in cs:
        f = C.f
        da = f.d.get('dbgargs') or []
        if not C.slot_candidates or len(da) != len(f.args):
            continue
        doms = []
        maxm = 16
        for a, d in zip(f.args, da):
            nm = d['name']
            if a['ty']['k'] == 'ptr':
                doms.append(['buf:' + nm])
            elif a['ty']['k'] == 'fp':
                doms.append([2.0, 8.0])
            elif nm in ('m', 'nn', 'n'):
                doms.append([4, 16])
            elif 'log2' in nm:
                doms.append([10, 18])
            else:
                doms.append([1, 2])
        tuples = list(itertools.product(*doms))[:8]
        struct_sz = 64
        for cand in C.slot_candidates:
            t = L.fn(cand)
            if t is not None and t.args and t.args[0]['ty']['k'] == 'ptr':
                mm = re.match(r'%([A-Za-z0-9_.]+)\*', t.args[0]['ty']['s'])
                if mm and mm.group(1) in L.structs:
                    struct_sz = L.structs[mm.group(1)]['size']

        def table_after(c, tup):
            c.m.trace_names = set(C.slot_candidates)
            c.m.trace = []
            args = []
            for v in tup:
                if isinstance(v, str):
                    args.append(c.buf(v[4:] + str(len(c.objs)), 64 * maxm + 256, 'inout'))
                else:
                    args.append(v)
            st, _, _ = c.run(f.name, args)
            del c.m.events[:]
            tr = c.m.trace
            c.m.trace_names = set()
            if st != 'ok' or not tr:
                return ('status', st)
            p = tr[-1][1][0]
            if not isinstance(p, Ptr) or p.obj.fields is None or not is_int(p.off):
                return ('status', 'table pointer %r' % (p,))
            snap = {}
            for o, (sz, v) in p.obj.fields.items():
                if p.off <= o < p.off + struct_sz:
                    if isinstance(v, FnPtr):
                        snap[o - p.off] = ('fn', v.name)
                    elif is_int(v) or isinstance(v, float):
                        snap[o - p.off] = v
            return ('table', tuple(sorted(snap.items(), key=str)), tr[-1][0])

        bad = None
        aborted = False
        for cpu in ('accel', 'generic'):
            fresh = {}
            for tup in tuples:
                try:
                    fresh[tup] = table_after(Ctx(L, cpu=cpu, trusted=TRUSTED), tup)
                except (Unsupported, NeedEnum, Aborted, Runaway) as e:
                    fresh[tup] = ('status', str(e))
            if all(v[0] == 'status' for v in fresh.values()):
                aborted = True
                continue
            for seq in itertools.product(tuples, repeat=3 if tier == 'quick' else 4):
                if len(set(seq)) == 1:
                    continue
                c = Ctx(L, cpu=cpu, trusted=TRUSTED)
                last = None
                try:
                    for tup in seq:
                        last = table_after(c, tup)
                except (Unsupported, NeedEnum, Aborted, Runaway) as e:
                    last = ('status', str(e))
                nseq += 1
                want = fresh[seq[-1]]
                if last != want and want[0] == 'table':
                    bad = bad or (seq, 'after the calls %s the table used is %s, a fresh process uses %s' % (
                        [tuple(x for x in t if not isinstance(x, str)) for t in seq], last[1:] if last else last, want[1:]))
                    break
            if bad:
                break
        subj = f.name
        if bad:
            R.ob('cached-table-equals-fresh-table-after-any-history', subj, 'refuted', detail=bad[1],
                 key='%s:history' % f.name, witness={'sequence': [[x for x in t if not isinstance(x, str)] for t in bad[0]]}, loc=f.loc)
        elif aborted and nseq == 0:
            R.ob('cached-table-equals-fresh-table-after-any-history', subj, 'holds', nontrivial=False,
                 detail='every kernel behind the table aborts')
        else:
            R.ob('cached-table-equals-fresh-table-after-any-history', subj, 'holds')
    return nseq


def rule_e(L, R, tier):
    """(e) no alignment-dependent path: in the region engine every caller buffer has unknown low address bits; a branch or
    select whose condition depends on them (an `if ((uintptr_t)p & 31)` dispatch to another code path) is reported.  Module
    API on the accelerated configuration over its whole shape box, and every kernel contract entry."""
    from ..kernels import KERNELS, KBox
    from ..sweep import sweep_api
    n = 0
    res = sweep_api(L, tier, ordered=False, want={'alignment-dependent-path'}, cpus=('accel',))
    for (name, mod, cpu, al), rec in sorted(res.items(), key=str):
        n += rec['runs']
        for b in rec['broken'][:2]:
            R.broke(b)
        subj = '%s [%s,%s]' % (name, mod, cpu)
        fds = [f for f in rec['findings'].get('alignment-dependent-path', []) if f]
        if fds:
            R.ob('no-alignment-dependent-path', subj, 'refuted', detail=fds[0]['detail'], key='%s:alignment-path' % name,
                 loc=fds[0].get('loc'), witness=fds[0].get('shape'))
        else:
            R.ob('no-alignment-dependent-path', subj, 'holds', detail='%d instantiations' % rec['runs'], nontrivial=rec['runs'] > 0)
    K = KERNELS(tier)
    box = KBox(L)
    for name, spec in sorted(K.items()):
        bad = None
        runs = 0
        for sh in spec['dom']:
            try:
                r = box.instantiate(name, spec, sh, 'accel', expand=False)
            except (Unsupported, NeedEnum, Aborted) as e:
                continue        # domain / modelling questions belong to C11's sweep of the same entries
            runs += 1
            for e in r.events:
                if e.kind == 'X' and e.note and e.note.startswith('alignment-dependent'):
                    bad = bad or (sh, e.note, e.loc)
        n += runs
        if bad:
            R.ob('no-alignment-dependent-path', 'kernel %s' % name, 'refuted', detail=bad[1], key='%s:alignment-path' % name,
                 loc=bad[2], witness=bad[0])
        else:
            R.ob('no-alignment-dependent-path', 'kernel %s' % name, 'holds', detail='%d instantiations' % runs, nontrivial=runs > 0)
    return n


def run(tier):
    R = Report('C15', tier)
    L, G, E = ctx.lib(), ctx.cg(), ctx.effects()
    if G.unresolved or G.escapes:
        R.broke('call graph incomplete')
    cs = rule_b(L, G, E, R)
    na = rule_a(L, G, E, R, cs)
    nh = history_independence(L, R, cs, tier)
    R.floor('call sequences instantiated for history independence', nh, 1500)
    nd = rule_d(L, E, R)
    # module-level functions must not touch the caches at all (hidden state behind a MODULE entry point)
    from .C12 import rule1
    R12 = Report('C15-r1', tier)
    rule1(L, E, R12)
    for o in R12.obligations:
        if o['rule'] in ('table-function-writes-no-global', 'table-function-reads-no-mutable-global'):
            R.obligations.append(o)
            R.nontrivial.add((o['rule'], o['subject']))
    ne = rule_e(L, R, tier)
    R.floor('instantiations searched for alignment-dependent paths', ne, 3000)
    R.floor('cache (*_simple) functions', len(cs), 18)
    R.floor('mutable statics', na, 15)
    R.floor('caller-buffer parameters checked for alignment sensitivity', nd, 600)
    n_al = sum(1 for f in L.functions.values() for r in E.summ[f.key].aligned)
    R.floor('alignment-sensitive accesses seen in the library (tables/locals)', n_al, 20)
    # canaries
    FL, FG, FE = ctx.fixtures()
    FR = Report('C15-fixtures', tier)
    fcs = rule_b(FL, FG, FE, FR, 'fixture:')
    rule_a(FL, FG, FE, FR, fcs, 'fixture:')
    rule_d(FL, FE, FR, 'fixture:')
    fired = {(o['rule'], o['subject']) for o in FR.obligations if o['status'] == 'refuted'}
    held = {(o['rule'], o['subject']) for o in FR.obligations if o['status'] == 'holds'}
    for must in (('cache-key-covers-constructor-parameters', 'fixture:fxc_underkeyed_simple'),
                 ('mutable-static-is-a-verified-cache', 'fixture:fixtures/fx_effects.c:fx_hidden_state'),
                 ('no-aligned-access-on-caller-buffer', 'fixture:fx_align_load(a)')):
        if must not in fired:
            R.broke('canary did not fire: %s %s' % must)
    for mustnot in (('cache-key-covers-constructor-parameters', 'fixture:fxc_ok_simple'),
                    ('no-aligned-access-on-caller-buffer', 'fixture:fx_align_ok(a)')):
        if mustnot not in held:
            R.broke('negative control did not hold: %s %s' % mustnot)
    R.extra['canaries_fired'] = sorted('%s %s' % x for x in fired)
    R.extra['cache_functions'] = {C.f.name: {'key': sorted(C.key_args), 'table_depends_on': sorted(C.ctor_deps),
                                              'thread_local': C.tls} for C in cs}
    R.rules.append('obligation = (rule, function | static | parameter); see explanation')
    R.assumptions += ['read-before-write of outputs/scratch is reported under C11',
                      'log2m(m) is injective on the documented domain (m a power of two): the slot index identifies m']
    return R.finish('(a) every mutable static is a verified *_simple cache and no MODULE/PRECOMP-taking function touches one; '
                    '(b) backward data-flow slices: constructor parameters the table depends on must be contained in the cache key; '
                    '(d) E2 provenance of every alignment-sensitive load/store must not be a caller data/scratch buffer.')
