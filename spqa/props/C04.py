"""C04 — q120 lazy modular arithmetic never wraps 64 bits on any in-range operand.

Decided for the vector-matrix products (E5: interval analysis over the E4 value DAG of one call):
for q120_vec_mat1col_product_{baa,bbb,bbc}_{ref,avx2} and the q120x2 one- and two-column forms (ref and avx2), with
every operand lane at the extreme of its layout (a: < 2^32, b: < 2^64, c: 32-bit words < 2^32) and ell = MAX_ELL (the
value of the macro in the current headers; shorter lengths are dominated), using the split point h and the reduced
powers of two that the *current source's* constructors compute (the table is built by instantiating the constructor,
no constant is copied into the checker):
  * no add / mul / shl / sub intermediate leaves its 64-bit word (accumulators, partial products, recombination, final sum);
  * split-multiplication rule: every operand that is masked to 32 bits for a 32x32 multiply (the semantics of
    _mm256_mul_epu32) either fits 32 bits or has its complementary high part (the same value shifted right by 32)
    consumed elsewhere in the same result - otherwise bits are silently dropped (this is what fails for the AVX2 a*a
    product with a 31-bit prime set).
Not decided: congruence of the results modulo each prime (modular algebra) - only that the integer computation it
relies on is exact.
NTT / iNTT: for every n = 1 .. 2048 (quick) / 65536 (thorough) the forward and the inverse transform are instantiated in
the interval machine (tables and per-level metadata - half bit-size, masks, q<<k offsets, reduce flags - built by the
constructors of the current source; the data lanes are the interval [0, 2^64)) and no add / mul / shl / lazy subtraction
leaves its word at any level; the evidence lists the bit envelope of the outputs per n."""
import os
import re
import subprocess

from .. import ctx
from ..build import REPO, AnalysisBroken
from ..equiv import final_state
from ..intervals import Intervals
from ..kernels import KERNELS, KBox
from ..report import Report
from ..values import Sym, fmt, sym
from ..vals import NeedEnum, Unsupported


def max_ell():
    r = subprocess.run(['clang-14', '-E', '-dM', '-I', os.path.join(REPO, 'spqlios'), os.path.join(REPO, 'spqlios/q120/q120_common.h')],
                       stdout=subprocess.PIPE, stderr=subprocess.STDOUT, text=True)
    m = re.search(r'#define MAX_ELL (\d+)', r.stdout)
    if not m:
        raise AnalysisBroken('MAX_ELL not found in q120_common.h')
    return int(m.group(1))


def reachable(vals):
    seen = set()
    stack = [v for v in vals if isinstance(v, Sym)]
    while stack:
        v = stack.pop()
        if v in seen:
            continue
        seen.add(v)
        for x in v.e[1:]:
            if isinstance(x, Sym) and x not in seen:
                stack.append(x)
    return seen


LAYOUT_A = {'q120_vec_mat1col_product_baa_ref': ('x', 'y'), 'q120_vec_mat1col_product_baa_avx2': ('x', 'y')}


def analyse_product(L, box, K, name, ell, cpu='accel'):
    spec = K[name]
    r = box.instantiate(name, spec, {'ell': ell}, cpu, expand='values')
    if r.status != 'ok':
        return None, 'call %s' % (r.status,), 0
    st = final_state(r, ('out',)).get('res', {})
    a_bufs = LAYOUT_A.get(name, ())

    def atom(nm, off, size):
        if nm in a_bufs and size == 8:
            return (0, (1 << 32) - 1)
        return (0, (1 << (8 * size)) - 1)

    I = Intervals(atom, fmt)
    vals = [v for _, (s, v) in sorted(st.items())]
    I.ev_all(vals)
    probs = [repr(f) for f in I.findings[:3]]
    # split multiplication
    wide = [(p, iv) for p, iv in I.mask32_muls if iv[1] >= (1 << 32)]
    if wide:
        nodes = reachable(vals)
        for p, iv in wide:
            hi_part = sym('lshr', 64, p, 32)
            if hi_part not in nodes:
                probs.append('operand %s (up to %d bits) is cut to 32 bits for a multiply and its high part is never used' % (
                    fmt(p)[:160], iv[1].bit_length()))
                break
    return probs, None, len(I.memo)


def _job(args):
    import sys
    import threading
    name, ell = args
    out = {}

    def work():
        try:
            L = ctx.lib()
            K = KERNELS('quick')
            box = KBox(L)
            probs, err, n = analyse_product(L, box, K, name, ell)
            out['r'] = (probs, err, n, None)
        except (Unsupported, NeedEnum) as e:
            out['r'] = (None, None, 0, str(e))
        except Exception as e:  # noqa
            out['r'] = (None, None, 0, 'internal error: %r' % (e,))

    sys.setrecursionlimit(2000000)
    threading.stack_size(512 * 1024 * 1024)
    t = threading.Thread(target=work)
    t.start()
    t.join()
    return out.get('r', (None, None, 0, 'worker died'))


def _ntt_job(args):
    import sys
    import threading
    n, = args
    out = {}

    def work():
        try:
            from ..harness import Ctx
            from ..trusted import TRUSTED
            L = ctx.lib()
            res = []
            for which in ('ntt', 'intt'):
                c = Ctx(L, 'accel', trusted=TRUSTED, intervals=True)
                pre = c.construct('q120_new_%s_bb_precomp' % which, [n])
                data = c.buf('data', 32 * n, 'inout')
                st, _, _ = c.run('q120_%s_bb_avx2' % which, [pre, data])
                del c.m.events[:]
                f = sorted(c.m.findings.items(), key=str)[:2]
                mx = max((v.hi for _, (s, v) in getattr(data.obj, 'vstore', {}).items() if hasattr(v, 'hi')), default=0)
                res.append((which, st, [(loc, k, fn, hi.bit_length()) for loc, (k, lo, hi, fn) in f], c.m.nops, mx.bit_length(),
                            len(getattr(c.m, 'precision_loss', []))))
            out['r'] = (res, None)
        except (Unsupported, NeedEnum) as e:
            out['r'] = (None, str(e))
        except Exception as e:  # noqa
            out['r'] = (None, 'internal error: %r' % (e,))

    sys.setrecursionlimit(200000)
    threading.stack_size(256 * 1024 * 1024)
    t = threading.Thread(target=work)
    t.start()
    t.join()
    return out.get('r', (None, 'worker died'))


def ntt_intervals(R, tier):
    """per-level envelope of the NTT / iNTT on arbitrary 64-bit lanes, for every n of the tier (eager interval machine)"""
    from concurrent.futures import ProcessPoolExecutor
    from ..trusted import validate
    for p in validate(ctx.lib()):
        R.broke(p)
    ns = [1 << k for k in range(0, 12 if tier == 'quick' else 17)]
    with ProcessPoolExecutor(max_workers=min(14, len(ns))) as ex:
        results = list(ex.map(_ntt_job, [(n,) for n in ns]))
    nops = 0
    env = {}
    for n, (res, err) in zip(ns, results):
        if err:
            R.broke('NTT intervals n=%d: %s' % (n, err))
            continue
        for which, st, finds, ops, bits, ploss in res:
            nops += ops
            subj = 'q120_%s_bb_avx2 n=%d' % (which, n)
            env['%s n=%d' % (which, n)] = bits
            if st != 'ok':
                R.ob('ntt-level-envelope-never-wraps', subj, 'refuted', detail='call %s' % (st,), key='q120_%s:n=%d:status' % (which, n))
            elif finds and ploss:
                # the envelope was computed after dropping a relation between values (parts of a wide range treated as
                # independent): an overflow of that envelope is not a proof
                loc, kind, fn, hb = finds[0]
                R.ob('ntt-level-envelope-never-wraps', subj, 'unknown',
                     detail='%s in %s at %s is not excluded, but the envelope is imprecise here' % (kind, fn, loc))
            elif finds:
                loc, kind, fn, hb = finds[0]
                R.ob('ntt-level-envelope-never-wraps', subj, 'refuted',
                     detail='%s in %s: an intermediate can reach %d bits on full-range 64-bit lanes' % (kind, fn, hb),
                     key='q120_%s:%s' % (which, (loc or '').split('/')[-1]), loc=loc, witness={'n': n, 'lanes': 'any 64-bit value'})
            else:
                R.ob('ntt-level-envelope-never-wraps', subj, 'holds', detail='output lanes below 2^%d' % bits)
    R.extra['ntt_output_bit_envelope'] = env
    return nops


def run(tier):
    R = Report('C04', tier)
    L = ctx.lib()
    ME = max_ell()
    K = KERNELS('quick')
    box = KBox(L)
    names = sorted(n for n in K if n.startswith('q120') and 'product' in n)
    R.floor('q120 product kernels', len(names), 10)
    # an odd length as well: unrolled kernels treat the last row separately
    ells = [3, ME - 1, ME] if tier == 'quick' else sorted({1, 2, 3, 100, 101, ME // 2, ME - 1, ME})
    nodes = 0
    from concurrent.futures import ProcessPoolExecutor
    jobs = [(name, ell) for name in names for ell in ells]
    with ProcessPoolExecutor(max_workers=min(12, len(jobs))) as ex:
        results = list(ex.map(_job, jobs))
    by = {}
    for (name, ell), res in zip(jobs, results):
        by.setdefault(name, []).append((ell, res))
    for name in names:
        bad = None
        for ell, (probs, err, n, broke) in by[name]:
            if broke:
                R.broke('%s ell=%d: %s' % (name, ell, broke))
                continue
            nodes += n
            if err:
                bad = bad or (ell, err)
            elif probs:
                bad = bad or (ell, probs[0])
        if bad:
            R.ob('no-intermediate-wraps-at-max-ell', name, 'refuted', detail='ell=%d: %s' % bad, key='%s:wrap' % name,
                 witness={'ell': bad[0], 'operands': 'every lane at the maximum of its layout'})
        else:
            R.ob('no-intermediate-wraps-at-max-ell', name, 'holds', detail='ell in %s' % ells)
    R.evaluations = nodes
    R.floor('expression nodes given an interval', nodes, 1000000)
    # low end of the declared length range: reference and AVX2 agree modulo each prime for ell = 0, 1, 2
    # (the statement's last sentence; the same engine as C10, restricted to the pair clause)
    from . import C10
    ncmp = C10.products(L, R, C10.primes(), tier, ells=[0, 1, 2], rename={
        'avx2-product-is-congruent-to-the-reference': 'avx2-agrees-with-reference-at-the-short-end-of-the-length-range',
        'empty-product-is-zero': 'empty-product-is-zero'})
    R.floor('lanes compared between reference and AVX2 at ell in {0,1,2}', ncmp, 60)
    # table constants in evidence (re-derived from the current source on every run)
    from ..harness import Ctx
    c = Ctx(L, 'accel')
    tbl = {}
    for lay in ('baa', 'bbb', 'bbc'):
        p = c.construct('q120_new_vec_mat1col_product_%s_precomp' % lay, [])
        tbl[lay] = [v[1] for k, v in sorted(p.obj.fields.items())][:12]
        if not tbl[lay] or not isinstance(tbl[lay][0], int):
            R.broke('split point h of the %s table could not be derived from the constructor' % lay)
    R.extra['MAX_ELL'] = ME
    R.extra['tables_from_current_source'] = tbl
    nn = ntt_intervals(R, tier)
    R.floor('interval operations in the NTT/iNTT envelopes', nn, 500000)
    R.extra['ntt_certificate'] = 'n = 1 .. %d' % (2048 if tier == 'quick' else 65536)
    # canary: an accumulator that exceeds 64 bits at MAX_ELL
    from ..fixcheck import interval_canary
    interval_canary(R, ME)
    R.rules.append('evaluation = one node of the value DAG of a product at ell = MAX_ELL given an interval; obligation = kernel')
    R.assumptions += ['operands respect their layout (a: lanes < 2^32 in 64-bit words; b: any 64-bit lane; c: any 32-bit words)',
                      'intervals ignore correlations between lanes (conservative); congruence mod q is not decided',
                      'NTT/iNTT envelopes: quick tier covers n <= 2048, thorough all n <= 65536']
    return R.finish('E5: interval analysis of the expression DAG of each product at maximal length and maximal operands, tables '
                    'obtained by instantiating the constructors of the current source.')
