"""C03 — NTT120 transform is an exact, invertible negacyclic transform on all 64-bit data.

Decided symbolically, for every n of the box and each of the four primes, for *all* 64-bit lane contents at once (the
data are abstract):
 A  the forward transform is linear modulo q: the E4 expression of every output lane of q120_ntt_bb_avx2, rewritten to a
    polynomial over Z/q with the exact bit-splitting identities (and the interval facts of E5 for vanished high parts),
    is a linear form sum_i M[j][i]*x_i with no constant, no non-linear term and no split remainder left;
 B  it is the evaluation map at the roots of X^n+1: with psi_j = M[j][1], M[j][i] = psi_j^i for every i, psi_j^n = -1
    (mod q) and the psi_j are pairwise distinct - hence (algebra) products of transforms invert to the negacyclic
    convolution;
 C  q120_intt_bb_avx2 applied to the transform's output returns every lane congruent to the input lane (identity matrix
    modulo q, scaling by n^-1 included);
 D  during the whole forward+inverse computation on arbitrary 64-bit lanes no add/mul/shl/sub intermediate wraps (E5 on
    the same DAG) - the NTT part of C04 for these n;
 E  lane conversions: int64 -> residue lanes is congruent to the input (the sign-offset constants satisfy
    OQ_k + 2^63 = 0 mod q_k) and the CRT constants satisfy Qm_k * CRT_k = 1 mod q_k, so that with A-C and the centred
    range of the lift (C10) vec_znx_idft(vec_znx_dft(a)) returns a for every int64 a;
 M  module level: ntt120_vec_znx_dft / idft / idft_tmp_a write exactly res_size limbs, limb i depends only on input limb
    i, limbs beyond the input are zero, and idft leaves a_dft unwritten (C16/C18/C11 clauses, re-checked here for NTT120).
 S  large dimensions (including the switch from level-by-level to block-by-block scheduling): n = 128, 1024, 2048
    (quick), 1024..8192 (thorough): the transform and its inverse are instantiated in full; for nine sampled outputs
    per prime the linear form is extracted; the inverse's row 1 yields all n points psi_i^-1 (distinct, roots of
    X^n+1); every sampled inverse row is n^-1 * psi_i^-j and every sampled forward row is psi_j^i with the same points.
Box for the full-matrix clauses A-D: n = 1..64 (quick), ..512 (thorough).  No-wrap for n up to 65536: C04."""
import re

from .. import ctx
from ..equiv import final_state
from ..harness import Ctx
from ..intervals import Intervals
from ..kernels import KERNELS, KBox
from ..modq import ModPoly
from ..report import Report
from ..trusted import TRUSTED
from ..values import Sym, fmt, sym
from ..vals import NeedEnum, Unsupported, is_int
from .C10 import primes


def linear_rows(mp, polys, n, k, bufname='data'):
    """polys -> matrix rows {i: coef}; error string if not a linear form in the input lanes of prime k"""
    inv = {a: key for key, a in mp.atoms.items()}
    rows = []
    for j, p in enumerate(polys):
        row = {}
        for m, c in p.items():
            if mp.undecided({m: c}):
                raise Unsupported('output %d contains an operation the congruence rewriting does not model: %s' % (j, mp.show({m: c})))
            if len(m) != 1:
                return None, 'output %d has the non-linear / constant term %s' % (j, mp.show({m: c}))
            key = inv[m[0]]
            if key[0] != 'in' or key[1] != bufname or key[3] != 8 or (key[2] // 8) % 4 != k:
                return None, 'output %d of prime %d depends on %s' % (j, k + 1, mp.show({m: c}))
            row[key[2] // 32] = c
        rows.append(row)
    return rows, None


class _Broke(list):
    pass


def _ntt_one(L, qs, n):
    """clauses A-D for one dimension; returns (n, {clause: detail}, rows checked, [analysis problems])"""
    nchk = 0
    broke = []
    bad = {}
    try:
        c = Ctx(L, 'accel', expand=True, trusted=TRUSTED, values=True)
        pre = c.construct('q120_new_ntt_bb_precomp', [n])
        ipre = c.construct('q120_new_intt_bb_precomp', [n])
        data = c.buf('data', 32 * n, 'inout')
        st, _, _ = c.run('q120_ntt_bb_avx2', [pre, data])
        del c.m.events[:]
        fwd = dict(getattr(data.obj, 'vstore', {}))
        st2, _, _ = c.run('q120_intt_bb_avx2', [ipre, data])
        del c.m.events[:]
        rt = dict(getattr(data.obj, 'vstore', {}))
    except (Unsupported, NeedEnum) as e:
        broke.append('NTT n=%d: %s' % (n, e))
        return (n, bad, nchk, broke)
    if st != 'ok' or st2 != 'ok':
        bad['A'] = 'transform call %s / %s' % (st, st2)
    else:
        I = Intervals(lambda nm, off, size: (0, (1 << (8 * size)) - 1), fmt)

        def bound(t):
            r_ = I.ev_all([t])[0]
            return r_[1] if r_ is not None and r_[0] >= 0 else None

        def val(store, off):
            e = store.get(off)
            if e is None:
                return sym('in', 'data', off, 8)
            return e[1]

        for k in range(4):
            q = qs[k]
            mp = ModPoly(q, None, bound)
            outs = [val(fwd, 32 * j + 8 * k) for j in range(n)]
            ps = mp.of_many(outs)
            try:
                rows, err = linear_rows(mp, ps, n, k)
            except Unsupported as e:
                broke.append('NTT n=%d prime %d: %s' % (n, k + 1, e))
                bad.setdefault('A', 'not decided')
                continue
            nchk += n
            if err:
                bad.setdefault('A', 'prime %d: %s' % (k + 1, err))
                continue
            # evaluation map
            psis = []
            for j, row in enumerate(rows):
                if row.get(0, 0) != 1:
                    bad.setdefault('B', 'prime %d: output %d has coefficient %d on x_0 (expected 1)' % (k + 1, j, row.get(0, 0)))
                    break
                psi = row.get(1, 0) if n > 1 else 0
                psis.append(psi)
                pw = 1
                for i in range(n):
                    if row.get(i, 0) != pw:
                        bad.setdefault('B', 'prime %d: output %d, coefficient of x_%d is %d, not psi^%d = %d' % (
                            k + 1, j, i, row.get(i, 0), i, pw))
                        break
                    pw = pw * psi % q
                if n > 1 and pow(psi, n, q) != q - 1:
                    bad.setdefault('B', 'prime %d: output %d evaluates at psi = %d with psi^n != -1' % (k + 1, j, psi))
            if n > 1 and len(set(psis)) != n:
                bad.setdefault('B', 'prime %d: evaluation points are not distinct' % (k + 1))
            # round trip
            outs2 = [val(rt, 32 * j + 8 * k) for j in range(n)]
            ps2 = mp.of_many(outs2)
            for j, p in enumerate(ps2):
                exp = mp.of(sym('in', 'data', 32 * j + 8 * k, 8))
                nchk += 1
                if p != exp and mp.undecided(p):
                    broke.append('NTT n=%d prime %d: round-trip lane %d contains an operation the rewriting does not model' % (n, k + 1, j))
                    break
                if p != exp:
                    bad.setdefault('C', 'prime %d: lane %d after ntt+intt is %s, not the input lane' % (k + 1, j, mp.show(p)))
                    break
        # wrap-freedom of the whole forward+inverse DAG
        I.ev_all([v for _, (s, v) in rt.items()])
        if I.findings:
            bad.setdefault('D', repr(I.findings[0])[:300])
    return (n, bad, nchk, broke)


def _ntt_job(n):
    import sys
    import threading
    out = {}

    def work():
        try:
            out['r'] = _ntt_one(ctx.lib(), primes(), n)
        except Exception as e:  # noqa
            out['r'] = (n, {}, 0, ['internal error: %r' % (e,)])

    sys.setrecursionlimit(500000)
    threading.stack_size(512 * 1024 * 1024)
    t = threading.Thread(target=work)
    t.start()
    t.join()
    return out.get('r', (n, {}, 0, ['worker died']))


def ntt_algebra(L, R, qs, tier):
    from concurrent.futures import ProcessPoolExecutor
    ns = [1, 2, 4, 8, 16, 32, 64] if tier == 'quick' else [1, 2, 4, 8, 16, 32, 64, 128, 256, 512]
    nchk = 0
    with ProcessPoolExecutor(max_workers=min(6, len(ns))) as ex:
        results = list(ex.map(_ntt_job, sorted(ns, reverse=True)))
    for n, bad, cnt, broke in sorted(results):
        nchk += cnt
        for b_ in broke:
            R.broke(b_)
        for cl, rule in (('A', 'ntt-is-linear-mod-q'), ('B', 'ntt-is-evaluation-at-roots-of-X^n+1'),
                         ('C', 'intt-inverts-ntt-mod-q'), ('D', 'ntt-intt-no-wrap-on-64-bit-lanes')):
            subj = 'q120 ntt/intt n=%d' % n
            if cl in bad:
                R.ob(rule, subj, 'refuted', detail=bad[cl], key='q120_ntt:%s:n=%d' % (rule, n), witness={'n': n})
            elif 'A' in bad and cl != 'A':
                R.ob(rule, subj, 'unknown', detail='not evaluated: linear form not obtained')
            else:
                R.ob(rule, subj, 'holds')
    return nchk


# ---------------------------------------------------------------------------------------------------------------------
# S  large dimensions (block-by-block scheduling above CHANGE_MODE_N): the whole transform is instantiated symbolically,
#    linear forms are extracted for a sample of rows only.
def _sample(n):
    return sorted({0, 1, 2, n // 3, n // 2 - 1, n // 2, (2 * n) // 3, n - 2, n - 1})


def sampled_rows(L, qs, n):
    """returns (error or None, rows checked)"""
    nchk = 0
    I = Intervals(lambda nm, off, size: (0, (1 << (8 * size)) - 1), fmt)

    def bound(t):
        r_ = I.ev_all([t])[0]
        return r_[1] if r_ is not None and r_[0] >= 0 else None

    stores = {}
    for which in ('ntt', 'intt'):
        c = Ctx(L, 'accel', expand=True, trusted=TRUSTED, values=True)
        pre = c.construct('q120_new_%s_bb_precomp' % which, [n])
        data = c.buf('data', 32 * n, 'inout')
        st, _, _ = c.run('q120_%s_bb_avx2' % which, [pre, data])
        del c.m.events[:]
        if st != 'ok':
            return '%s call %s' % (which, st), nchk
        stores[which] = dict(getattr(data.obj, 'vstore', {}))
    js = _sample(n)
    for k in range(4):
        q = qs[k]
        mp = ModPoly(q, None, bound)
        for which in ('intt', 'ntt'):
            S = stores[which]
            miss = [j for j in js if 32 * j + 8 * k not in S]
            if miss:
                return '%s: output %d not written' % (which, miss[0]), nchk
            ps = mp.of_many([S[32 * j + 8 * k][1] for j in js])
            rows, err = linear_rows(mp, ps, n, k)
            if err:
                return '%s prime %d: %s' % (which, k + 1, err), nchk
            nchk += len(rows)
            if which == 'intt':
                # row 1 of the inverse gives n^-1 * psi_i^-1 for every i: the full list of evaluation points
                ninv = pow(n, -1, q)
                r1 = rows[js.index(1)]
                ipsi = [r1.get(i, 0) * n % q for i in range(n)]
                if len(set(ipsi)) != n:
                    return 'intt prime %d: the points read off inverse row 1 are not distinct' % (k + 1), nchk
                for i in (0, 1, n // 2, n - 1):
                    if pow(ipsi[i], n, q) != q - 1:
                        return 'intt prime %d: point %d is not a root of X^n+1' % (k + 1, i), nchk
                for j, row in zip(js, rows):
                    for i in range(n):
                        if row.get(i, 0) != ninv * pow(ipsi[i], j, q) % q:
                            return 'intt prime %d: row %d, coefficient of input %d is %d, not n^-1 * psi_%d^-%d' % (
                                k + 1, j, i, row.get(i, 0), i, j), nchk
            else:
                for j, row in zip(js, rows):
                    psi = row.get(1, 0)
                    if psi * ipsi[j] % q != 1:
                        return 'ntt prime %d: output %d evaluates at %d, the inverse transform assumes %d' % (
                            k + 1, j, psi, pow(ipsi[j], -1, q)), nchk
                    pw = 1
                    for i in range(n):
                        if row.get(i, 0) != pw:
                            return 'ntt prime %d: output %d, coefficient of x_%d is %d, not psi^%d = %d' % (
                                k + 1, j, i, row.get(i, 0), i, pw), nchk
                        pw = pw * psi % q
    return None, nchk


def _sampled_job(n):
    import sys
    import threading
    out = {}

    def work():
        try:
            out['r'] = sampled_rows(ctx.lib(), primes(), n) + (None,)
        except (Unsupported, NeedEnum) as e:
            out['r'] = (None, 0, str(e))
        except Exception as e:  # noqa
            out['r'] = (None, 0, 'internal error: %r' % (e,))

    sys.setrecursionlimit(500000)
    threading.stack_size(512 * 1024 * 1024)
    t = threading.Thread(target=work)
    t.start()
    t.join()
    return out.get('r', (None, 0, 'worker died'))


def large_dimensions(R, tier):
    from concurrent.futures import ProcessPoolExecutor
    ns = [128, 1024, 2048] if tier == 'quick' else [1024, 2048, 4096, 8192]
    nchk = 0
    with ProcessPoolExecutor(max_workers=min(4, len(ns))) as ex:
        results = list(ex.map(_sampled_job, ns))
    for n, (err, cnt, broke) in zip(ns, results):
        subj = 'q120 ntt/intt n=%d' % n
        nchk += cnt
        if broke:
            R.broke('sampled rows n=%d: %s' % (n, broke))
        elif err:
            R.ob('sampled-rows-of-large-transforms-are-the-evaluation-map-and-its-inverse', subj, 'refuted', detail=err,
                 key='q120_ntt:sampled:n=%d' % n, witness={'n': n})
        else:
            R.ob('sampled-rows-of-large-transforms-are-the-evaluation-map-and-its-inverse', subj, 'holds',
                 detail='%d rows (9 outputs x 4 primes x 2 directions)' % cnt)
    return nchk


def constants(L, R, qs):
    """E: sign-offset and CRT constants"""
    import os
    import subprocess
    from ..build import REPO
    r = subprocess.run(['clang-14', '-E', '-dM', '-I', os.path.join(REPO, 'spqlios'), os.path.join(REPO, 'spqlios/q120/q120_common.h')],
                       stdout=subprocess.PIPE, stderr=subprocess.STDOUT, text=True)
    crt = []
    for k in (1, 2, 3, 4):
        m = re.search(r'#define Q%d_CRT_CST (\d+)' % k, r.stdout)
        crt.append(int(m.group(1)) if m else None)
    Q = qs[0] * qs[1] * qs[2] * qs[3]
    for k in range(4):
        if crt[k] is None:
            R.broke('Q%d_CRT_CST not found' % (k + 1))
            continue
        if (Q // qs[k]) * crt[k] % qs[k] != 1:
            R.ob('crt-constant-is-the-inverse', 'Q%d_CRT_CST' % (k + 1), 'refuted',
                 detail='(Q/q%d) * %d mod q%d = %d, not 1' % (k + 1, crt[k], k + 1, (Q // qs[k]) * crt[k] % qs[k]),
                 key='Q%d_CRT_CST' % (k + 1))
        else:
            R.ob('crt-constant-is-the-inverse', 'Q%d_CRT_CST' % (k + 1), 'holds')
    # int64 -> residue lanes: lane_k(x) = x (mod q_k) for every int64 x, decided by a sign-case split of the symbolic lane
    K = KERNELS('quick')
    box = KBox(L)
    r1 = box.instantiate('q120_b_from_znx64_simple', K['q120_b_from_znx64_simple'], {'nn': 1}, 'accel', expand='values')
    st = final_state(r1, ('out',)).get('res', {})
    from ..congr import decide, word
    X = ('x', 0, 8)
    for k in range(4):
        v = st.get(8 * k, (8, None))[1]
        subj = 'q120_b_from_znx64_simple lane %d' % k
        if v is None:
            R.ob('int64-to-residue-lane-is-congruent', subj, 'refuted', detail='lane not written', key='q120_b_from_znx64_simple:lane%d' % k)
            continue
        status, detail = decide(v, qs[k], lambda mp, case: word(mp, X, case), {X: True})
        if status == 'refuted':
            R.ob('int64-to-residue-lane-is-congruent', subj, 'refuted', detail=detail, key='q120_b_from_znx64_simple:lane%d' % k)
        else:
            R.ob('int64-to-residue-lane-is-congruent', subj, status, detail=detail)


def module_level(L, R, tier):
    from ..apicheck import ApiBox, shapes_for
    from ..equiv import support
    from ..harness import NTT120
    box = ApiBox(L)
    n = 0
    for name, outn, inn in (('vec_znx_dft', 'res', 'a'), ('vec_znx_idft', 'res', 'a_dft'), ('vec_znx_idft_tmp_a', 'res', 'a_dft')):
        bad = None
        shapes = [sh for sh in shapes_for(name, tier) if sh['N'] <= 8]
        for sh in shapes:
            try:
                r = box.instantiate(name, sh, 'accel', NTT120, expand='values')
            except (Unsupported, NeedEnum) as e:
                R.broke('%s %s: %s' % (name, sh, e))
                continue
            n += 1
            if r.status != 'ok':
                bad = bad or (sh, 'call %s' % (r.status,))
                continue
            out, inp = r.bufs[outn], r.bufs[inn]
            st = final_state(r, ('out',)).get(outn, {})
            smin = min(out.nlimbs, inp.nlimbs)
            for off, (sz, v) in st.items():
                i = off // out.limb
                if i >= smin:
                    if not (isinstance(v, (int, float)) and v == 0):
                        bad = bad or (sh, 'limb %d beyond the input is not zero' % i)
                    continue
                for (bn, o, s) in support(v):
                    if bn != inp.name:
                        continue
                    if not (i * inp.stride <= o < i * inp.stride + inp.limb):
                        bad = bad or (sh, 'output limb %d depends on input byte %d outside limb %d' % (i, o, i))
            if name == 'vec_znx_idft':
                if any(e.kind == 'W' and e.obj is inp.ptr.obj for e in r.events):
                    bad = bad or (sh, 'the non-overwriting inverse DFT writes its input')
        if bad:
            R.ob('ntt120-module-size-semantics', name, 'refuted', detail=bad[1], key='ntt120:%s' % name, witness=bad[0])
        else:
            R.ob('ntt120-module-size-semantics', name, 'holds', detail='%d shapes' % len(shapes))
    return n


def run(tier):
    R = Report('C03', tier)
    L = ctx.lib()
    qs = primes()
    n1 = ntt_algebra(L, R, qs, tier)
    constants(L, R, qs)
    n2 = module_level(L, R, tier)
    n3 = large_dimensions(R, tier)
    R.floor('sampled rows of large transforms', n3, 200)
    R.evaluations = n1 + n2 + n3
    R.floor('matrix rows / round-trip lanes checked modulo a prime', n1, 900)
    R.floor('NTT120 module instantiations', n2, 200)
    R.extra['primes'] = qs
    R.rules.append('obligation = (clause, n) for the transform algebra; (constant) ; (module function)')
    R.assumptions += ['bit-splitting identities are integer identities, applicable because clause D shows no wrap on the same DAG',
                      'above the full-matrix box the rows are sampled (clause S), not all checked']
    return R.finish('E4 expressions of ntt and ntt+intt rewritten to linear forms over Z/q (all lane values at once); evaluation-map '
                    'structure of the matrix; E5 wrap-freedom of the same DAG; constant identities; NTT120 module limb semantics.')
