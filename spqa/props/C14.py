"""C14 — numeric layout conversions are exact / correctly rounded on their whole domain.

NOT decided: that the mantissa tricks round correctly inside their window (bit-level floating-point semantics over a
value range).  Decided (structural, necessary conditions):
 (a) constant construction: in every conversion-table constructor, instantiated on the *whole* parameter domain the
     constructor itself admits (every log2overhead / log2bound value that passes its validation, every dimension
     m = 2^k <= 65536, divisors 2^j), no integer sub-expression that feeds a magic constant is computed in a narrow
     type that overflows before being widened (sitofp/sext/uitofp of an overflowed i32 shl/add/sub/mul).
 (b) dispatch windows: for every admitted (m, bound) and both CPU configurations, the kernel stored in the table is
     one whose documented magnitude window covers the bound (frozen table WINDOWS below, from the kernels' names and
     comments); kernels are selected only for dimensions their vector width divides (footprint part checked by C11's
     kernel sweep on the same tables).
 (c) table fields: the dimension / divisor stored in the table are the constructor's arguments (no silent rescaling).
Footprint equality of reference and accelerated variants is reported under C07."""
from .. import ctx
from ..harness import Ctx
from ..machine import Runaway
from ..report import Report
from ..trusted import TRUSTED
from ..vals import Aborted, FnPtr, NeedEnum, Ptr, Unsupported, is_int

# kernel -> (parameter index in the constructor call, maximal admissible value, reason)
WINDOWS = {
    'reim_from_znx64_bnd50_fma': ('log2bound', 50, 'adds 3*2^51 and masks the exponent: exact only for |x| < 2^50'),
    'reim_to_znx64_avx2_bnd50_fma': ('log2bound', 50, 'adds 3*2^51: rounds correctly only for |x/d| < 2^50'),
    'reim_to_znx64_avx2_bnd63_fma': ('log2bound', 64, 'wide variant (exponent arithmetic), whole int64 range'),
    'cplx_to_tnx32_avx2_fma': ('log2overhead', 18, 'adds 3*2^(51-32): valid for |x/d| < 2^18'),
    'reim_to_tnx32_avx2_fma': ('log2overhead', 18, 'same trick as the cplx variant'),
}

MS = [1, 2, 4, 8, 16, 64, 1024, 65536]

CTORS = [
    # (constructor, arg builder, parameter names, domain of the bound parameter, struct fields to confirm)
    ('new_reim_from_znx64_precomp', lambda m, b: [m, b], 'log2bound', range(0, 51)),
    ('new_reim_to_znx64_precomp', lambda m, b: [m, float(m), b], 'log2bound', range(0, 65)),
    ('new_reim_to_tnx_precomp', lambda m, b: [m, 4.0, b], 'log2overhead', range(0, 53)),
    ('new_reim_to_tnx32_precomp', lambda m, b: [m, 4.0, b], 'log2overhead', range(0, 53)),
    ('new_cplx_to_tnx32_precomp', lambda m, b: [m, 4.0, b], 'log2overhead', range(0, 53)),
    ('new_reim_from_znx32_precomp', lambda m, b: [m, b], 'log2bound', range(0, 33)),
    ('new_cplx_from_znx32_precomp', lambda m, b: [m], None, [0]),
    ('new_cplx_from_tnx32_precomp', lambda m, b: [m], None, [0]),
    ('new_reim_from_tnx32_precomp', lambda m, b: [m], None, [0]),
]


def window_selections(L, ms, cpus=('accel',)):
    """(constructor, cpu, windowed kernel, m, bound, limit) for every admitted parameter tuple whose selected kernel is
    outside its window; also returns the number of instantiations. Shared with C07 (the window is the domain on which
    the accelerated kernel computes the reference function)."""
    out, n = [], 0
    for cname, mk, pname, dom in CTORS:
        if L.fn(cname) is None or pname is None:
            continue
        for cpu in cpus:
            for m in ms:
                for b in dom:
                    c = Ctx(L, cpu=cpu, trusted=TRUSTED)
                    st, ret, ev = c.run(cname, mk(m, b))
                    n += 1
                    if st != 'ok' or not isinstance(ret, Ptr):
                        continue
                    fn = ret.obj.fields.get(0)
                    if fn and isinstance(fn[1], FnPtr) and fn[1].name in WINDOWS and pname == WINDOWS[fn[1].name][0]:
                        if b > WINDOWS[fn[1].name][1]:
                            out.append((cname, cpu, fn[1].name, m, b, WINDOWS[fn[1].name][1]))
    return out, n


def run(tier):
    R = Report('C14', tier)
    L = ctx.lib()
    ms = MS if tier == 'quick' else [1 << k for k in range(17)]
    ninst = 0
    for cname, mk, pname, dom in CTORS:
        f = L.fn(cname)
        if f is None:
            R.broke('constructor %s vanished' % cname)
            continue
        for cpu in ('accel', 'generic'):
            ovf = {}
            win = {}
            fld = {}
            admitted = 0
            for m in ms:
                for b in dom:
                    c = Ctx(L, cpu=cpu, trusted=TRUSTED)
                    try:
                        st, ret, ev = c.run(cname, mk(m, b))
                    except (Unsupported, NeedEnum) as e:
                        R.broke('%s(%s,%s): %s' % (cname, m, b, e))
                        continue
                    ninst += 1
                    if st != 'ok' or not isinstance(ret, Ptr):
                        continue  # rejected by the constructor's own validation: outside its domain
                    admitted += 1
                    for e in ev:
                        if e.kind == 'X' and e.note and e.note.startswith('narrow-overflow'):
                            ovf.setdefault(e.loc, (m, b, e.note))
                    fn = ret.obj.fields.get(0)
                    if fn and isinstance(fn[1], FnPtr) and fn[1].name in WINDOWS and pname == WINDOWS[fn[1].name][0]:
                        lim = WINDOWS[fn[1].name][1]
                        if b > lim:
                            win.setdefault(fn[1].name, (m, b, lim))
                    mm = ret.obj.fields.get(8)
                    if mm and is_int(mm[1]) and mm[1] != m:
                        fld.setdefault('m', (m, b, mm[1]))
            subj = '%s [%s]' % (cname, cpu)
            if ovf:
                loc, (m, b, note) = sorted(ovf.items(), key=str)[0]
                R.ob('magic-constant-computed-wide-enough', subj, 'refuted',
                     detail='%s for %s=%d (m=%d)' % (note, pname, b, m), key='%s:narrow-overflow' % cname, loc=loc,
                     witness={'m': m, pname: b, 'cpu': cpu})
            else:
                R.ob('magic-constant-computed-wide-enough', subj, 'holds', detail='%d admitted parameter tuples' % admitted,
                     nontrivial=admitted > 0)
            if win:
                k, (m, b, lim) = sorted(win.items())[0]
                R.ob('dispatch-window-covers-bound', subj, 'refuted',
                     detail='%s selected for %s=%d (m=%d) but is valid only up to %d: %s' % (k, pname, b, m, lim, WINDOWS[k][2]),
                     key='%s:window:%s' % (cname, k), witness={'m': m, pname: b, 'cpu': cpu})
            else:
                R.ob('dispatch-window-covers-bound', subj, 'holds', nontrivial=admitted > 0)
            if fld:
                R.ob('table-stores-constructor-dimension', subj, 'refuted',
                     detail='table.m = %d for constructor argument m = %d' % (fld['m'][2], fld['m'][0]), key='%s:m-field' % cname)
            else:
                R.ob('table-stores-constructor-dimension', subj, 'holds', nontrivial=admitted > 0)
    R.evaluations = ninst
    R.floor('constructor instantiations', ninst, 3000)
    for k in WINDOWS:
        if L.fn(k) is None:
            R.broke('windowed kernel %s vanished (WINDOWS table stale)' % k)
    # canary
    FL, FG, FE = ctx.fixtures()
    c = Ctx(FL, cpu='accel')
    st, ret, ev = c.run('fx_c14_int_shift', [30])
    if not any(e.kind == 'X' and e.note and e.note.startswith('narrow-overflow') for e in ev):
        R.broke('canary did not fire: fx_c14_int_shift(30)')
    st, ret, ev = c.run('fx_c14_int_shift', [20])
    if any(e.kind == 'X' for e in ev):
        R.broke('negative control fired: fx_c14_int_shift(20)')
    R.extra['canaries_fired'] = ['fx_c14_int_shift(30) -> narrow-overflow']
    R.extra['windows'] = {k: {'param': v[0], 'max': v[1], 'why': v[2]} for k, v in WINDOWS.items()}
    R.rules.append('evaluation = one constructor instantiation on a parameter tuple; obligation = (clause, constructor, cpu)')
    R.assumptions += ['the rounding behaviour of the mantissa tricks inside their window is not decided (numeric)',
                      'WINDOWS transcribes the kernels\' documented magnitude windows']
    return R.finish('Exhaustive instantiation of the conversion-table constructors on their finite parameter domain: narrow-integer '
                    'overflow before widening, kernel selection against documented windows, stored dimension.')
