"""C14 — numeric layout conversions are exact / correctly rounded on their whole domain.

Decided:
 (d) the contract itself, for every input of the window (E6, spqa/fpbits.py + spqa/convspec.py): for each conversion,
     dimensions on both sides of the vector threshold, divisors 2^j, bounds / overheads and both CPU paths, the kernel
     selected by the library's constructor is evaluated symbolically and its output-lane expression is analysed over the
     whole magnitude window, partitioned by sign and binade with the mantissa as an integer variable (about 2 000
     partitions per configuration, refined by bisection where an operation is not uniform): int64/int32 -> double is the
     integer (times 2^-32 for the torus); double -> int64 is an integer within 1/2 of x/d for |x/d| < 2^min(bound,52);
     complex -> torus32 is within 1/2 of x*2^32/d modulo 2^32 for |x/d| < 2^18; double -> torus is congruent to x/d
     modulo 1 within 2^(overhead-50) and lies in [-1/2, 1/2] (up to that tolerance) for |x/d| <= 2^overhead.
     Assumes round-to-nearest-even and no NaN/infinity inputs.
 and the structural conditions:
 (a) constant construction: in every conversion-table constructor, instantiated on the *whole* parameter domain the
     constructor itself admits (every log2overhead / log2bound value that passes its validation, every dimension
     m = 2^k <= 65536, divisors 2^j), no integer sub-expression that feeds a magic constant is computed in a narrow
     type that overflows before being widened (sitofp/sext/uitofp of an overflowed i32 shl/add/sub/mul).
 (b) dispatch windows: for every admitted (m, bound) and both CPU configurations, the kernel stored in the table is
     one whose documented magnitude window covers the bound (frozen table WINDOWS below, from the kernels' names and
     comments); kernels are selected only for dimensions their vector width divides (footprint part checked by C11's
     kernel sweep on the same tables).
 (c) table fields: the dimension / divisor stored in the table are the constructor's arguments (no silent rescaling).
Footprint equality of reference and accelerated variants is reported under C07."""
from .. import ctx
from ..harness import Ctx
from ..machine import Runaway
from ..report import Report
from ..trusted import TRUSTED
from ..vals import Aborted, FnPtr, NeedEnum, Ptr, Unsupported, is_int

# kernel -> (parameter index in the constructor call, maximal admissible value, reason)
WINDOWS = {
    'reim_from_znx64_bnd50_fma': ('log2bound', 50, 'adds 3*2^51 and masks the exponent: exact only for |x| < 2^50'),
    'reim_to_znx64_avx2_bnd50_fma': ('log2bound', 50, 'adds 3*2^51: rounds correctly only for |x/d| < 2^50'),
    'reim_to_znx64_avx2_bnd63_fma': ('log2bound', 64, 'wide variant (exponent arithmetic), whole int64 range'),
    'cplx_to_tnx32_avx2_fma': ('log2overhead', 18, 'adds 3*2^(51-32): valid for |x/d| < 2^18'),
    'reim_to_tnx32_avx2_fma': ('log2overhead', 18, 'same trick as the cplx variant'),
}

MS = [1, 2, 4, 8, 16, 64, 1024, 65536]

CTORS = [
    # (constructor, arg builder, parameter names, domain of the bound parameter, struct fields to confirm)
    ('new_reim_from_znx64_precomp', lambda m, b: [m, b], 'log2bound', range(0, 51)),
    ('new_reim_to_znx64_precomp', lambda m, b: [m, float(m), b], 'log2bound', range(0, 65)),
    ('new_reim_to_tnx_precomp', lambda m, b: [m, 4.0, b], 'log2overhead', range(0, 53)),
    ('new_reim_to_tnx32_precomp', lambda m, b: [m, 4.0, b], 'log2overhead', range(0, 53)),
    ('new_cplx_to_tnx32_precomp', lambda m, b: [m, 4.0, b], 'log2overhead', range(0, 53)),
    ('new_reim_from_znx32_precomp', lambda m, b: [m, b], 'log2bound', range(0, 33)),
    ('new_cplx_from_znx32_precomp', lambda m, b: [m], None, [0]),
    ('new_cplx_from_tnx32_precomp', lambda m, b: [m], None, [0]),
    ('new_reim_from_tnx32_precomp', lambda m, b: [m], None, [0]),
]


def window_selections(L, ms, cpus=('accel',)):
    """(constructor, cpu, windowed kernel, m, bound, limit) for every admitted parameter tuple whose selected kernel is
    outside its window; also returns the number of instantiations. Shared with C07 (the window is the domain on which
    the accelerated kernel computes the reference function)."""
    out, n = [], 0
    for cname, mk, pname, dom in CTORS:
        if L.fn(cname) is None or pname is None:
            continue
        for cpu in cpus:
            for m in ms:
                for b in dom:
                    c = Ctx(L, cpu=cpu, trusted=TRUSTED)
                    st, ret, ev = c.run(cname, mk(m, b))
                    n += 1
                    if st != 'ok' or not isinstance(ret, Ptr):
                        continue
                    fn = ret.obj.fields.get(0)
                    if fn and isinstance(fn[1], FnPtr) and fn[1].name in WINDOWS and pname == WINDOWS[fn[1].name][0]:
                        if b > WINDOWS[fn[1].name][1]:
                            out.append((cname, cpu, fn[1].name, m, b, WINDOWS[fn[1].name][1]))
    return out, n


def _contract_job(args):
    import sys
    import threading
    idx, cpu, tier = args
    out = {}

    def work():
        from ..convspec import configurations, lanes_of, specs
        from ..fpbits import analyse
        from ..kernels import KBox
        try:
            name, sh, win, parts, want, inbits, check, text = configurations(tier)[idx]
            from fractions import Fraction as Fr
            from ..convspec import probes_half_integers
            pr = None
            if name == 'reim_to_znx64':
                pr = probes_half_integers(Fr(sh['d']))
            elif name == 'cplx_to_tnx32':
                pr = probes_half_integers(Fr(sh['d']), 1 << 32)
            spec, inbuf, kind = specs()[name]
            r = KBox(ctx.lib()).instantiate(name, spec, {k: (float(v) if k == 'd' else v) for k, v in sh.items()}, cpu, expand='values')
            if r.status != 'ok':
                out['r'] = ('status', 'constructor or call %s' % (r.status,), 0, 0)
                return
            lanes, err = lanes_of(r, 'r', inbuf)
            if err:
                out['r'] = ('broke', err, 0, 0)
                return
            np_ = ns = 0
            for root, off in lanes.items():
                A = analyse(root, parts, want, inbits, check, probes=pr)
                np_ += A.partitions
                ns += A.singletons
                if A.unknown:
                    out['r'] = ('broke', 'output +%d: %s' % (off, A.unknown), np_, ns)
                    return
                if A.violation:
                    out['r'] = ('viol', 'output +%d: %s' % (off, A.violation), np_, ns)
                    return
            out['r'] = ('ok', '%d lane expression(s)' % len(lanes), np_, ns)
        except (Unsupported, NeedEnum) as e:
            out['r'] = ('broke', str(e), 0, 0)
        except Exception as e:  # noqa
            out['r'] = ('broke', 'internal error: %r' % (e,), 0, 0)

    sys.setrecursionlimit(200000)
    threading.stack_size(256 * 1024 * 1024)
    t = threading.Thread(target=work)
    t.start()
    t.join()
    return out.get('r', ('broke', 'worker died', 0, 0))


def contracts(R, tier):
    from concurrent.futures import ProcessPoolExecutor
    from ..convspec import configurations
    from ..fpbits import analyse, f64_partitions, pow2
    from ..convspec import chk_to_int
    from ..values import sym
    from fractions import Fraction as Fr
    cfgs = configurations(tier)
    jobs = [(i, cpu, tier) for i in range(len(cfgs)) for cpu in ('accel', 'generic')]
    with ProcessPoolExecutor(max_workers=14) as ex:
        results = list(ex.map(_contract_job, jobs, chunksize=1))
    agg = {}
    nparts = 0
    for (i, cpu, _), (st, msg, np_, ns) in zip(jobs, results):
        name, sh, win, parts, want, inbits, check, text = cfgs[i]
        nparts += np_
        a = agg.setdefault((name, cpu), {'n': 0, 'parts': 0, 'bad': None, 'text': text})
        a['n'] += 1
        a['parts'] += np_
        shs = ', '.join('%s=%s' % (k, v) for k, v in sh.items())
        if st == 'broke':
            R.broke('%s(%s) [%s]: %s' % (name, shs, cpu, msg))
        elif st in ('viol', 'status') and a['bad'] is None:
            a['bad'] = ('%s, %s: %s' % (shs, win, msg), dict({k: str(v) for k, v in sh.items()}, cpu=cpu))
    for (name, cpu), a in sorted(agg.items()):
        subj = '%s [%s]' % (name, cpu)
        if a['bad']:
            R.ob('conversion-meets-its-contract-on-the-whole-window', subj, 'refuted', detail=a['bad'][0],
                 key='%s:contract' % name, witness=a['bad'][1])
        else:
            R.ob('conversion-meets-its-contract-on-the-whole-window', subj, 'holds',
                 detail='%s; %d configurations, %d partitions' % (a['text'], a['n'], a['parts']))
    # canaries of the engine: the add-3*2^51 trick is exact on |x| < 2^50 and fails at the top of |x| < 2^52
    X = sym('in', 'X', 0, 8)
    trick = sym('add', 64, sym('and', 64, sym('fadd', X, float(3 << 51)), (1 << 52) - 1), (1 << 64) - (1 << 51))
    good = analyse(trick, f64_partitions(pow2(50)), 'I', 64, chk_to_int(Fr(1)))
    bad = analyse(trick, f64_partitions(pow2(52)), 'I', 64, chk_to_int(Fr(1)))
    if good.violation or good.unknown:
        R.broke('E6 negative control failed: %s' % (good.violation or good.unknown))
    if not bad.violation:
        R.broke('E6 canary did not fire (magic-constant trick beyond its window)')
    R.extra['e6_canary'] = bad.violation
    return len(jobs), nparts


def run(tier):
    R = Report('C14', tier)
    L = ctx.lib()
    nj, nparts = contracts(R, tier)
    R.floor('conversion configurations analysed over their whole window', nj, 80)
    R.floor('input partitions (sign x binade, refined) decided', nparts, 150000)
    ms = MS if tier == 'quick' else [1 << k for k in range(17)]
    ninst = 0
    for cname, mk, pname, dom in CTORS:
        f = L.fn(cname)
        if f is None:
            R.broke('constructor %s vanished' % cname)
            continue
        for cpu in ('accel', 'generic'):
            ovf = {}
            win = {}
            fld = {}
            admitted = 0
            for m in ms:
                for b in dom:
                    c = Ctx(L, cpu=cpu, trusted=TRUSTED)
                    try:
                        st, ret, ev = c.run(cname, mk(m, b))
                    except (Unsupported, NeedEnum) as e:
                        R.broke('%s(%s,%s): %s' % (cname, m, b, e))
                        continue
                    ninst += 1
                    if st != 'ok' or not isinstance(ret, Ptr):
                        continue  # rejected by the constructor's own validation: outside its domain
                    admitted += 1
                    for e in ev:
                        if e.kind == 'X' and e.note and e.note.startswith('narrow-overflow'):
                            ovf.setdefault(e.loc, (m, b, e.note))
                    fn = ret.obj.fields.get(0)
                    if fn and isinstance(fn[1], FnPtr) and fn[1].name in WINDOWS and pname == WINDOWS[fn[1].name][0]:
                        lim = WINDOWS[fn[1].name][1]
                        if b > lim:
                            win.setdefault(fn[1].name, (m, b, lim))
                    mm = ret.obj.fields.get(8)
                    if mm and is_int(mm[1]) and mm[1] != m:
                        fld.setdefault('m', (m, b, mm[1]))
            subj = '%s [%s]' % (cname, cpu)
            if ovf:
                loc, (m, b, note) = sorted(ovf.items(), key=str)[0]
                R.ob('magic-constant-computed-wide-enough', subj, 'refuted',
                     detail='%s for %s=%d (m=%d)' % (note, pname, b, m), key='%s:narrow-overflow' % cname, loc=loc,
                     witness={'m': m, pname: b, 'cpu': cpu})
            else:
                R.ob('magic-constant-computed-wide-enough', subj, 'holds', detail='%d admitted parameter tuples' % admitted,
                     nontrivial=admitted > 0)
            if win:
                k, (m, b, lim) = sorted(win.items())[0]
                R.ob('dispatch-window-covers-bound', subj, 'refuted',
                     detail='%s selected for %s=%d (m=%d) but is valid only up to %d: %s' % (k, pname, b, m, lim, WINDOWS[k][2]),
                     key='%s:window:%s' % (cname, k), witness={'m': m, pname: b, 'cpu': cpu})
            else:
                R.ob('dispatch-window-covers-bound', subj, 'holds', nontrivial=admitted > 0)
            if fld:
                R.ob('table-stores-constructor-dimension', subj, 'refuted',
                     detail='table.m = %d for constructor argument m = %d' % (fld['m'][2], fld['m'][0]), key='%s:m-field' % cname)
            else:
                R.ob('table-stores-constructor-dimension', subj, 'holds', nontrivial=admitted > 0)
    R.evaluations = ninst + nparts
    R.floor('constructor instantiations', ninst, 3000)
    for k in WINDOWS:
        if L.fn(k) is None:
            R.broke('windowed kernel %s vanished (WINDOWS table stale)' % k)
    # canary
    FL, FG, FE = ctx.fixtures()
    c = Ctx(FL, cpu='accel')
    st, ret, ev = c.run('fx_c14_int_shift', [30])
    if not any(e.kind == 'X' and e.note and e.note.startswith('narrow-overflow') for e in ev):
        R.broke('canary did not fire: fx_c14_int_shift(30)')
    st, ret, ev = c.run('fx_c14_int_shift', [20])
    if any(e.kind == 'X' for e in ev):
        R.broke('negative control fired: fx_c14_int_shift(20)')
    R.extra['canaries_fired'] = ['fx_c14_int_shift(30) -> narrow-overflow']
    R.extra['windows'] = {k: {'param': v[0], 'max': v[1], 'why': v[2]} for k, v in WINDOWS.items()}
    R.rules.append('evaluation = one constructor instantiation on a parameter tuple; obligation = (clause, constructor, cpu)')
    R.assumptions += ['IEEE-754 binary64, round-to-nearest-even, no NaN / infinity inputs; divisors and dimensions sampled '
                      '(the expressions depend on them only through the constants the constructors compute)',
                      'WINDOWS transcribes the kernels\' documented magnitude windows (clause b)']
    R.rules.append('evaluation (contract clause) = one input partition (sign x binade of the input, refined by bisection) of one '
                   'conversion configuration decided by the affine enclosure; a reported violation is a single-input partition')
    return R.finish('E6: the E4 expression of every output lane of the kernel selected by the constructor, analysed over the whole '
                    'magnitude window by binade-partitioned affine enclosures (every input of the window is covered by a decided '
                    'partition); plus exhaustive instantiation of the constructors on their parameter domain: narrow-integer '
                    'overflow before widening, kernel selection against documented windows, stored dimension.')
