"""C09 — rotation, automorphism and (X^p - 1) product are the ring maps for every p.

These maps are data-independent signed permutations: with the data abstract (E4), one symbolic instantiation per (N, p)
yields, for every output coefficient, exactly which input coefficient it holds and with which sign - for all inputs at
once.  Decided on the box
      N in {1,2,...,64} (quick) / ..256 (thorough), *every* residue p mod 2N (every odd residue for automorphisms), plus p
      negative and far outside [0, 2N) (|p| up to 2^62),
for znx_/rnx_ rotate, mul_xp_minus_one, automorphism and their in-place variants:
 M  the stored expression of coefficient t is the ring map in Z[X]/(X^N+1):
        rotate:        res = a * X^p          automorphism (p odd):   res = a(X^p)          mul_xp_minus_one: res = a*X^p - a
    (index arithmetic modulo 2N, sign flip when the exponent wraps past N);
 I  the in-place variants leave exactly the same expressions in the buffer (all five special-cased orbit shapes of the
    in-place automorphism and the cycle-leader walks occur in the box since every residue is enumerated);
 V  the vector and big-coefficient wrappers apply that map limb by limb (C08 clause P + kernel identity, re-checked on a
    small shape set through the module API, both module types).
N above the box is not covered (the index arithmetic is uniform in N, but that is not proved here)."""
from .. import ctx
from ..equiv import final_state, has_unknown
from ..kernels import KBox, S
from ..report import Report
from ..values import Canon, fmt, sym
from ..vals import NeedEnum, Unsupported

M64 = (1 << 64) - 1


def expected_map(kind, N, p):
    """list over output index t of list of (sign, input index)"""
    out = [[] for _ in range(N)]
    for j in range(N):
        e = (j + p) % (2 * N) if kind in ('rotate', 'mulxp') else (j * p) % (2 * N)
        if e < N:
            out[e].append((1, j))
        else:
            out[e - N].append((-1, j))
    if kind == 'mulxp':
        for j in range(N):
            out[j].append((-1, j))
    return out


KERN = [
    ('znx_rotate_i64', 'rotate', False, 'i'), ('znx_rotate_inplace_i64', 'rotate', True, 'i'),
    ('rnx_rotate_f64', 'rotate', False, 'f'), ('rnx_rotate_inplace_f64', 'rotate', True, 'f'),
    ('znx_mul_xp_minus_one', 'mulxp', False, 'i'), ('rnx_mul_xp_minus_one', 'mulxp', False, 'f'),
    ('rnx_mul_xp_minus_one_inplace', 'mulxp', True, 'f'),
    ('znx_automorphism_i64', 'auto', False, 'i'), ('znx_automorphism_inplace_i64', 'auto', True, 'i'),
    ('rnx_automorphism_f64', 'auto', False, 'f'), ('rnx_automorphism_inplace_f64', 'auto', True, 'f'),
]


def run(tier):
    R = Report('C09', tier)
    L = ctx.lib()
    box = KBox(L)
    cn = Canon()
    Ns = [1, 2, 4, 8, 16, 32, 64] if tier == 'quick' else [1, 2, 4, 8, 16, 32, 64, 128, 256]
    nmaps = ncoef = 0
    N8 = lambda s: 8 * s['nn']
    for name, kind, inplace, ty in KERN:
        if L.fn(name) is None:
            R.broke('kernel %s vanished' % name)
            continue
        if inplace:
            spec = dict(args=[('i', lambda s: s['nn']), ('i', lambda s: s['p']), ('b', 'res', 'inout', N8)])
            src = 'res'
        else:
            spec = dict(args=[('i', lambda s: s['nn']), ('i', lambda s: s['p']), ('b', 'res', 'out', N8), ('b', 'in', 'in', N8)])
            src = 'in'
        bad = None
        for N in Ns:
            ps = list(range(2 * N)) if kind != 'auto' else list(range(1, 2 * N, 2))
            extra = [-1, -3, -(2 * N) - 1, 2 * N + 1, 6 * N + 3, -(1 << 62) + 1, (1 << 62) + 1, -5, 4 * N - 1]
            if kind != 'auto':
                extra += [-2, -(2 * N), 2 * N, 10 * N + 2, -(1 << 62), (1 << 62)]
            if N > 64:
                ps = ps[::7] + ps[-3:]
            for p in ps + extra:
                if kind == 'auto' and p % 2 == 0:
                    continue
                sh = {'nn': N, 'p': p}
                try:
                    r = box.instantiate(name, spec, sh, 'accel', expand='values')
                except (Unsupported, NeedEnum) as e:
                    R.broke('%s %s: %s' % (name, sh, e))
                    continue
                nmaps += 1
                if r.status != 'ok':
                    bad = bad or (sh, 'call %s' % (r.status,))
                    continue
                st = final_state(r, ('out', 'inout')).get('res', {})
                exp = expected_map(kind, N, p)
                for t in range(N):
                    e = st.get(8 * t)
                    v = e[1] if e is not None else (sym('in', 'res', 8 * t, 8) if inplace else None)
                    if v is None or (e is not None and e[0] != 8):
                        bad = bad or (sh, 'coefficient %d not written' % t)
                        continue
                    if has_unknown(v):
                        bad = bad or (sh, 'coefficient %d holds an uninterpreted value' % t)
                        continue
                    want = {}
                    for sg, j in exp[t]:
                        a = sym('in', src, 8 * j, 8)
                        pa = cn.real(a) if ty == 'f' else cn.ring(a, 64)
                        want = cn._padd(want, pa, sg)
                    if ty == 'i':
                        want = {m: c % (1 << 64) for m, c in want.items() if c % (1 << 64)}
                    got = cn.real(v) if ty == 'f' else cn.ring(v, 64)
                    ncoef += 1
                    if got != want:
                        bad = bad or (sh, 'coefficient %d = %s, ring map gives %s' % (
                            t, fmt(v)[:80], ' '.join('%s%s[%d]' % ('+' if sg > 0 else '-', src, j) for sg, j in exp[t])))
        if bad:
            R.ob('kernel-is-the-ring-map', name, 'refuted', detail=bad[1], key='%s:ring-map' % name, witness=bad[0])
        else:
            R.ob('kernel-is-the-ring-map', name, 'holds')
    # wrappers through the module API
    from ..apicheck import ApiBox
    from ..harness import FFT64, NTT120
    ab = ApiBox(L)
    for name, kind in (('vec_znx_rotate', 'rotate'), ('vec_znx_automorphism', 'auto'), ('vec_znx_big_rotate', 'rotate'),
                       ('vec_znx_big_automorphism', 'auto')):
        for mtype in ([FFT64, NTT120] if not name.startswith('vec_znx_big') else [FFT64]):
            bad = None
            for N in (4, 16):
                for p in ([1, 3, 5, -1, 2 * N - 1, N + 1] if kind == 'auto' else [0, 1, 5, -3, N, 2 * N - 1]):
                    for alias in (None, ('res', 'a'), 'compact'):
                        sh = {'N': N, 'p': p, 'res_size': 3, 'a_size': 2}
                        if not name.startswith('vec_znx_big'):
                            sh.update(res_sl=N + 1, a_sl=N + 1)
                        if alias == 'compact':
                            # same base pointer, different strides: compaction of a stride-2N vector into stride N, limb by limb
                            # (limb 0 is in place, later limbs are not: the per-limb pointer test must decide)
                            if name.startswith('vec_znx_big'):
                                continue
                            sh.update(res_sl=N, a_sl=2 * N, res_size=3, a_size=3)
                            alias = ('res', 'a')
                        try:
                            r = ab.instantiate(name, sh, 'accel', mtype, alias=alias, expand='values')
                        except (Unsupported, NeedEnum) as e:
                            R.broke('%s %s: %s' % (name, sh, e))
                            continue
                        nmaps += 1
                        if r.status != 'ok':
                            bad = bad or (sh, 'call %s' % (r.status,))
                            continue
                        res, a = r.bufs['res'], r.bufs['a']
                        st = final_state(r, ('out',)).get('res', {})
                        exp = expected_map(kind, N, p)
                        srcn = 'res' if alias else 'a'
                        for i in range(res.nlimbs):
                            for t in range(N):
                                off = i * res.stride + 8 * t
                                e = st.get(off)
                                v = e[1] if e is not None else sym('in', 'res', off, 8)
                                want = {}
                                if i < a.nlimbs:
                                    for sg, j in exp[t]:
                                        want = cn._padd(want, cn.ring(sym('in', srcn, i * a.stride + 8 * j, 8), 64), sg)
                                want = {m: c % (1 << 64) for m, c in want.items() if c % (1 << 64)}
                                ncoef += 1
                                if has_unknown(v) or cn.ring(v, 64) != want:
                                    bad = bad or (dict(sh, alias=bool(alias)), 'limb %d coefficient %d = %s is not the ring map of limb %d' % (
                                        i, t, fmt(v)[:60], i))
            subj = '%s [%s]' % (name, 'fft64' if mtype == FFT64 else 'ntt120')
            if bad:
                R.ob('wrapper-applies-the-ring-map-per-limb', subj, 'refuted', detail=bad[1], key='%s:ring-map' % name, witness=bad[0])
            else:
                R.ob('wrapper-applies-the-ring-map-per-limb', subj, 'holds')
    R.evaluations = nmaps
    R.floor('(kernel, N, p) maps instantiated', nmaps, 3000)
    R.floor('coefficients compared with the ring map', ncoef, 100000)
    R.extra['coefficients_compared'] = ncoef
    R.rules.append('evaluation = one symbolic instantiation of a kernel on (N, p); every residue p mod 2N is enumerated for each N of the box')
    R.assumptions += ['box: N <= 64 (quick) / 256 (thorough, residues sampled above 64); larger N not covered']
    return R.finish('E4: the signed permutation computed by each kernel for each (N, p), obtained symbolically for all data at once, '
                    'compared with the ring map; in-place variants and wrappers likewise.')
