"""C06 — reim / cplx FFT and iFFT equal the mathematical transform, in documented order.

Decided:
 T  matrix of the transform: for every m of the box, for reim_fft / cplx_fft (and the inverses) as reached through the
    public entry points under both CPU configurations, the E4 expression of every output is a *linear form* in the abstract
    inputs whose coefficients (the arithmetic of the code read over the reals, with the double twiddles that the table
    constructor of the current source stored) are compared, in 192-bit arithmetic, with the mathematical matrix
        forward:  out_j = sum_i z_i * w^((1 + 4*bitrev_k(j)) * i),   w = exp(i*pi/(2m)),  k = log2 m
        inverse:  the conjugate-transpose map (so that ifft(fft(z)) = m*z)
    entrywise within 16*log2(2m)*2^-53.  This fixes the butterfly network, the output order (bit reversal), the table
    contents and their precision (a single-precision or wrongly indexed twiddle is off by >= 1e-9) and the producer /
    consumer agreement of the twiddle tables, for the reference kernels (all m of the box, incl. the 16-point leaves and
    the bfs driver) and for the AVX C kernels below the assembly leaves (m < 16).
 L  large dimensions: for m = 64 .. 4096 (quick) / 65536 (thorough) on the reference path, nine complete rows of the matrix
    (outputs 0,1,2, m/3, m/2-1, m/2, 2m/3, m-2, m-1; all m inputs each) are extracted the same way and compared with the
    mathematical transform - the recursive driver, the 2048 switch and every twiddle of those rows are thereby covered.
 S  schedule agreement for every dimension m = 1 .. 8192 (quick) / 65536 (thorough), both CPU paths: the table constructor and the transform
    invoke the same sequence of drivers (breadth-first 2/16-point, recursive) on the same sub-dimensions with the same
    twiddle-cursor offsets on entry and exit - the thresholds 16 / 2048 where the algorithm switches are thereby tied
    together between producer, reference consumer and accelerated consumer. The trace describes how the code is organised;
    where it differs (a recursion turned into a loop does that and changes no value) the clause is decided by clause L's
    comparison run at the dimensions in question, never by the trace itself.
 U  no uninitialised table read: every twiddle operand is a value the constructor wrote (no output depends on initial
    table memory).
 I  round trip: ifft(fft(z)) has the matrix m*Id within the same tolerance.
 E  a-priori rounding-error bound (E7, spqa/fperr.py): the transform is run once in one-step mode, every addition node of
    the data path is a stage, stages are scheduled into levels (sums / rotations), each level is a block-diagonal map whose
    exact (exact-twiddle) singular values, twiddle perturbation and rounding matrix are computed at 200 bits under a
    weighting that makes the levels orthogonal; the resulting norm-wise bound of ||computed - DFT|| / ||DFT|| is compared
    with 8*log2(2m)*2^-53: reference path and accelerated path (AVX C kernels and the hand-written 16-point assembly
    kernels, whose semantics are lifted from the .s text by spqa.asmsem) m <= 1024 (thorough 16384), forward and inverse,
    both layouts.  Standard model of floating-point arithmetic (no underflow/overflow), fma counted as two roundings.  If the
    bound cannot be established (unknown operation, a multiplier that is not a root-of-unity component, assembly leaf) the
    clause gives no verdict.
 R  tables are read-only: no transform writes through its PRECOMP argument (E2, all candidates) - repeated calls see
    identical tables.
Assembly 16-point kernels: arithmetic not modelled (footprint only, C07); larger m (the 2048 bfs/rec switch): memory
contract and table bounds only (C11)."""
from mpmath import mp, mpf, cos, sin, pi, log

from .. import ctx
from ..equiv import has_unknown
from ..kernels import KERNELS, KBox
from ..linform import LinForms, NotLinear
from ..report import Report
from ..values import fmt
from ..vals import Aborted, NeedEnum, Unsupported


def bitrev(j, k):
    r = 0
    for _ in range(k):
        r = (r << 1) | (j & 1)
        j >>= 1
    return r


def layout_offsets(layout, m, i):
    """byte offsets of (re, im) of complex element i"""
    if layout == 'reim':
        return 8 * i, 8 * (m + i)
    return 16 * i, 16 * i + 8


def expected(m, inverse):
    """E[j][i] = complex coefficient of input i in output j"""
    k = m.bit_length() - 1
    out = []
    for j in range(m):
        e = 1 + 4 * bitrev(j, k)
        row = []
        for i in range(m):
            th = pi * e * i / (2 * m)
            row.append((cos(th), sin(th)))
        out.append(row)
    if not inverse:
        return out
    # inverse: z_i = sum_j y_j * conj(w^(e_j * i))  (scaled by m overall, the library does not divide)
    inv = [[(out[j][i][0], -out[j][i][1]) for j in range(m)] for i in range(m)]
    return inv


def expected_row(m, j, inverse):
    """complex coefficients of output j: forward w^((1+4*bitrev(j))*i); inverse: conj(w^((1+4*bitrev(i))*j))"""
    k = m.bit_length() - 1
    row = []
    for i in range(m):
        e = (1 + 4 * bitrev(j, k)) * i if not inverse else (1 + 4 * bitrev(i, k)) * j
        th = pi * (e % (4 * m)) / (2 * m)
        row.append((cos(th), -sin(th)) if inverse else (cos(th), sin(th)))
    return row


def check_sampled(box, K, name, layout, m, cpu, inverse):
    """large dimensions: full symbolic instantiation, linear forms of a sample of outputs only (cone evaluation)"""
    spec = K[name]
    c = box.get(cpu, 'values')
    c.m.record = False           # the access events are not used here (and are many for large m)
    try:
        r = box.instantiate(name, spec, {'m': m}, cpu, expand='values')
    finally:
        c.m.record = True
    if r.status != 'ok':
        return 'call %s' % (r.status,), 0
    st = dict(getattr(r.bufs['data'].ptr.obj, 'vstore', {}))
    LF = LinForms()
    tol = 16 * log(2 * m, 2) * mpf(2) ** -53
    n = 0
    for j in sorted({0, 1, 2, m // 3, m // 2 - 1, m // 2, (2 * m) // 3, m - 2, m - 1}):
        E = expected_row(m, j, inverse)
        ro, io = layout_offsets(layout, m, j)
        for part, off in ((0, ro), (1, io)):
            e = st.get(off)
            if e is None:
                return 'output %d not written' % j, n
            if has_unknown(e[1]):
                return None, n
            try:
                c0, co = LF.of(e[1])
            except NotLinear as x:
                return 'output %d is not a linear form: %s' % (j, x), n
            for key in co:
                if key[1] != 'data':
                    return 'output %d depends on uninitialised table memory %s+%d' % (j, key[1], key[2]), n
            for i in range(m):
                iro, iio = layout_offsets(layout, m, i)
                cr = co.get(('in', 'data', iro, 8), mpf(0))
                ci = co.get(('in', 'data', iio, 8), mpf(0))
                er, ei = E[i]
                wr, wi = (er, -ei) if part == 0 else (ei, er)
                n += 2
                if abs(cr - wr) > tol or abs(ci - wi) > tol:
                    return ('%s part of output %d, input %d: coefficients (%s, %s), mathematical transform (%s, %s)' % (
                        'imaginary' if part else 'real', j, i, mp.nstr(cr, 18), mp.nstr(ci, 18), mp.nstr(wr, 18), mp.nstr(wi, 18))), n
    return None, n


def _sampled_job(args):
    import sys
    import threading
    name, layout, inverse, m = args[:4]
    cpu = args[4] if len(args) > 4 else 'generic'
    out = {}

    def work():
        try:
            L = ctx.lib()
            err, n = check_sampled(KBox(L), KERNELS('quick'), name, layout, m, cpu, inverse)
            out['r'] = (err, n, None)
        except (Unsupported, NeedEnum) as e:
            out['r'] = (None, 0, str(e))
        except Exception as e:  # noqa
            out['r'] = (None, 0, 'internal error: %r' % (e,))

    sys.setrecursionlimit(500000)
    threading.stack_size(512 * 1024 * 1024)
    t = threading.Thread(target=work)
    t.start()
    t.join()
    return out.get('r', (None, 0, 'worker died'))


def _error_bound_job(args):
    """E7 for one (transform, m, cpu): (bound in units of u, levels, worst twiddle distance in u) or a reason"""
    import sys
    import threading
    name, m, cpu = args
    out = {}

    def work():
        from ..fperr import NoVerdict, analyse_dag
        try:
            L = ctx.lib()
            box = KBox(L)
            c = box.get(cpu, 'values')
            orig = c.buf
            holder = {}

            def buf(nm, nb, role):
                p = orig(nm, nb, role)
                if nm == 'data':
                    p.obj.onestep = {'gen': {}, 'defs': {}}
                    holder['obj'] = p.obj
                return p
            c.buf = buf
            c.m.record = False
            try:
                r = box.instantiate(name, KERNELS('quick')[name], {'m': m}, cpu, expand='values')
            finally:
                c.buf = orig
                c.m.record = True
            if r.status != 'ok':
                out['r'] = ('status', 'call %s' % (r.status,))
                return
            res = analyse_dag(holder['obj'].onestep['defs'], name, m)
            out['r'] = ('ok', res['bound_in_u'], res['levels'], res['worst_constant_error_in_u'])
        except NoVerdict as e:
            out['r'] = ('noverdict', str(e)[:300])
        except (Unsupported, NeedEnum) as e:
            out['r'] = ('noverdict', str(e)[:300])
        except Exception as e:  # noqa
            out['r'] = ('broke', 'internal error: %r' % (e,))

    sys.setrecursionlimit(500000)
    threading.stack_size(512 * 1024 * 1024)
    t = threading.Thread(target=work)
    t.start()
    t.join()
    return out.get('r', ('broke', 'worker died'))


def check_transform(box, K, name, layout, m, cpu, inverse, R):
    spec = K[name]
    r = box.instantiate(name, spec, {'m': m}, cpu, expand='values')
    if r.status != 'ok':
        return 'call %s' % (r.status,), 0, False
    st = dict(getattr(r.bufs['data'].ptr.obj, 'vstore', {}))
    LF = LinForms()
    E = expected(m, inverse)
    tol = 16 * (log(2 * m, 2) if m > 0 else 1) * mpf(2) ** -53
    n = 0
    asm = False
    for j in range(m):
        ro, io = layout_offsets(layout, m, j)
        for part, off in ((0, ro), (1, io)):
            e = st.get(off)
            if e is None:
                if m == 1:
                    # the 1-point transform is the identity
                    continue
                return 'output %d not written' % j, n, asm
            v = e[1]
            if has_unknown(v):
                asm = True
                continue
            try:
                c0, co = LF.of(v)
            except NotLinear as x:
                return 'output %d is not a linear form in the inputs: %s' % (j, x), n, asm
            if abs(c0) > tol:
                return 'output %d has a constant term' % j, n, asm
            for key in co:
                if key[1] != 'data':
                    return 'output %d depends on uninitialised table memory %s+%d' % (j, key[1], key[2]), n, asm
            for i in range(m):
                iro, iio = layout_offsets(layout, m, i)
                cr = co.get(('in', 'data', iro, 8), mpf(0))
                ci = co.get(('in', 'data', iio, 8), mpf(0))
                er, ei = E[j][i]
                # out = (er + i*ei) * (zr + i*zi):  re = er*zr - ei*zi ; im = ei*zr + er*zi
                wr, wi = (er, -ei) if part == 0 else (ei, er)
                n += 2
                if abs(cr - wr) > tol or abs(ci - wi) > tol:
                    return ('%s part of output %d, input %d: coefficients (%s, %s), mathematical transform (%s, %s)' % (
                        'imaginary' if part else 'real', j, i, mp.nstr(cr, 18), mp.nstr(ci, 18), mp.nstr(wr, 18), mp.nstr(wi, 18))), n, asm
    return None, n, asm


def check_roundtrip(L, name_f, name_i, ctor_f, ctor_i, layout, m, cpu):
    from ..harness import Ctx
    from ..trusted import TRUSTED
    c = Ctx(L, cpu, expand=True, trusted=TRUSTED, values=True)
    tf = c.construct(ctor_f, [m, 0])
    ti = c.construct(ctor_i, [m, 0])
    data = c.buf('data', 16 * m, 'inout')
    st, _, _ = c.run(name_f, [tf, data])
    del c.m.events[:]
    st2, _, _ = c.run(name_i, [ti, data])
    del c.m.events[:]
    if st != 'ok' or st2 != 'ok':
        return 'calls %s / %s' % (st, st2), 0
    S = dict(getattr(data.obj, 'vstore', {}))
    LF = LinForms()
    tol = 32 * (log(2 * m, 2) if m > 1 else 1) * mpf(2) ** -53 * m
    n = 0
    for off in range(0, 16 * m, 8):
        e = S.get(off)
        if e is None:
            if m == 1:
                continue
            return 'byte %d not written' % off, n
        if has_unknown(e[1]):
            return None, n   # assembly leaf in the way: not comparable
        try:
            c0, co = LF.of(e[1])
        except NotLinear as x:
            return 'not linear: %s' % x, n
        for key, cf in co.items():
            want = mpf(m) if key == ('in', 'data', off, 8) else mpf(0)
            n += 1
            if abs(cf - want) > tol:
                return 'ifft(fft(z)) at byte %d has coefficient %s on input byte %d (expected %s)' % (off, mp.nstr(cf, 15), key[2], want), n
        if ('in', 'data', off, 8) not in co and m > 0:
            return 'ifft(fft(z)) at byte %d does not depend on its own input' % off, n
    return None, n


KIND = __import__('re').compile(r'(bfs_2|bfs_16|rec_16)')


def schedule_signature(L, ctor, entry, m, cpu):
    """driver schedule of the table producer and of the transform: [(phase, driver kind, sub-dimension, cursor offset[, data offset])]"""
    from ..harness import Ctx
    from ..trusted import TRUSTED
    from ..vals import Ptr, is_int
    c = Ctx(L, cpu, trusted=TRUSTED)
    c.m.trace_names = {f.name for f in L.functions.values() if KIND.search(f.name)}
    log = []

    def cb(mach, phase, name, args):
        cur = data = msub = None
        for a in args:
            if isinstance(a, Ptr) and a.obj.kind == 'alloca' and a.obj.fields is not None:
                v = a.obj.fields.get(a.off)
                if v and isinstance(v[1], Ptr):
                    cur = v[1].off
            elif isinstance(a, Ptr) and a.obj.kind == 'arg' and data is None:
                data = a.off
            elif is_int(a) and msub is None:
                msub = a
        log.append((phase, KIND.search(name).group(1), msub, cur, data))

    c.m.trace_cb = cb
    t = c.construct(ctor, [m, 0])
    fill = list(log)
    del log[:]
    data = c.buf('data', 16 * m, 'inout')
    st, _, _ = c.run(entry, [t, data])
    del c.m.events[:]
    return fill, list(log), st


def run(tier):
    R = Report('C06', tier)
    L, E = ctx.lib(), ctx.effects()
    K = KERNELS('quick')
    box = KBox(L)
    ms = [1, 2, 4, 8, 16, 32] if tier == 'quick' else [1, 2, 4, 8, 16, 32, 64, 128]
    ncoef = 0
    nasm = 0
    valres = {}     # (transform, m, cpu) -> None | error text, from the value clauses (matrix / sampled rows)
    for name, layout, inverse in (('reim_fft', 'reim', False), ('reim_ifft', 'reim', True), ('cplx_fft', 'cplx', False),
                                  ('cplx_ifft', 'cplx', True)):
        for cpu in ('generic', 'accel'):
            bad = None
            done = []
            for m in ms:
                try:
                    err, n, asm = check_transform(box, K, name, layout, m, cpu, inverse, R)
                except (Unsupported, NeedEnum) as e:
                    R.broke('%s m=%d: %s' % (name, m, e))
                    continue
                except Aborted:
                    continue
                ncoef += n
                if asm:
                    nasm += 1
                else:
                    done.append(m)
                    valres[(name, m, cpu)] = err
                if err:
                    bad = bad or (m, err)
            subj = '%s [%s]' % (name, cpu)
            if bad:
                R.ob('transform-matrix-is-the-dft-in-documented-order', subj, 'refuted', detail='m=%d: %s' % bad,
                     key='%s:%s:matrix' % (name, cpu), witness={'m': bad[0], 'cpu': cpu})
            else:
                R.ob('transform-matrix-is-the-dft-in-documented-order', subj, 'holds',
                     detail='m in %s fully symbolic%s' % (done, '; larger m pass through an assembly leaf' if len(done) < len(ms) else ''),
                     nontrivial=bool(done))
    # large dimensions (thresholds 16 / 2048, recursive driver): sampled outputs on the reference path
    big = [64, 256, 1024, 2048, 4096, 16384] if tier == 'quick' else [64, 256, 1024, 2048, 4096, 8192, 16384, 65536]
    from concurrent.futures import ProcessPoolExecutor
    fams = (('reim_fft', 'reim', False), ('reim_ifft', 'reim', True), ('cplx_fft', 'cplx', False), ('cplx_ifft', 'cplx', True))
    # the accelerated path as well (AVX C passes + the lifted 16-point assembly leaves), on fewer sizes
    big_acc = [64, 1024, 4096] if tier == 'quick' else [64, 256, 1024, 2048, 4096, 16384]
    jobs = [(name, layout, inverse, m, 'generic') for (name, layout, inverse) in fams for m in big if m not in ms] + \
           [(name, layout, inverse, m, 'accel') for (name, layout, inverse) in fams for m in big_acc if m not in ms]
    with ProcessPoolExecutor(max_workers=min(12, len(jobs))) as ex:
        results = list(ex.map(_sampled_job, jobs))
    for name, layout, inverse in fams:
        for cpu in ('generic', 'accel'):
            bad = None
            for (jn, jl, ji, m, jc), (err, n, broke) in zip(jobs, results):
                if jn != name or jc != cpu:
                    continue
                if broke:
                    R.broke('%s m=%d [%s]: %s' % (name, m, cpu, broke))
                    continue
                ncoef += n
                valres[(name, m, cpu)] = err
                if err:
                    bad = bad or (m, err)
            if bad:
                R.ob('sampled-rows-of-large-transforms-are-the-dft', '%s [%s]' % (name, cpu), 'refuted', detail='m=%d: %s' % bad,
                     key='%s:%s:sampled-matrix' % (name, cpu), witness={'m': bad[0], 'cpu': cpu})
            else:
                R.ob('sampled-rows-of-large-transforms-are-the-dft', '%s [%s]' % (name, cpu), 'holds',
                     detail='m in %s, 9 outputs each' % (big if cpu == 'generic' else big_acc))
    # E: a-priori rounding-error bound (E7, spqa/fperr.py) against the property's 8*log2(2m)*2^-53, norm-wise
    from math import log2 as _log2
    eb_ms = [2, 4, 8, 16, 64, 256, 1024] if tier == 'quick' else [2, 4, 8, 16, 32, 64, 128, 256, 512, 1024, 2048, 4096, 16384]
    ejobs = [(name, m, 'generic') for (name, _, _) in fams for m in eb_ms] + \
            [(name, m, 'accel') for (name, _, _) in fams for m in eb_ms]
    with ProcessPoolExecutor(max_workers=min(12, len(ejobs))) as ex:
        eres = list(ex.map(_error_bound_job, ejobs))
    nbound = 0
    table = {}
    for (name, _, _) in fams:
        for cpu in ('generic', 'accel'):
            worst = None
            unk = None
            mset = []
            for (jn, m, jc), rr in zip(ejobs, eres):
                if jn != name or jc != cpu:
                    continue
                if rr[0] == 'broke':
                    R.broke('%s m=%d [%s] error bound: %s' % (name, m, cpu, rr[1]))
                elif rr[0] != 'ok':
                    unk = unk or 'm=%d: %s' % (m, rr[1])
                else:
                    nbound += 1
                    mset.append(m)
                    prop = 8 * _log2(2 * m)
                    table['%s m=%d [%s]' % (name, m, cpu)] = {'proved_in_u': round(rr[1], 2), 'property_in_u': prop,
                                                               'levels': rr[2], 'worst_twiddle_distance_in_u': round(rr[3], 2)}
                    if rr[1] > prop and (worst is None or rr[1] / prop > worst[1] / worst[2]):
                        worst = (m, rr[1], prop)
            subj = '%s [%s]' % (name, cpu)
            if unk or worst:
                # an a-priori bound that cannot be established is no verdict on the code (it is an upper bound only)
                R.ob('a-priori-rounding-error-bound-within-the-stated-bound', subj, 'unknown',
                     detail=unk or 'm=%d: the provable bound is %.1f u, the stated bound is %.1f u' % worst)
            else:
                R.ob('a-priori-rounding-error-bound-within-the-stated-bound', subj, 'holds',
                     detail='m in %s%s' % (mset, ''))
    R.floor('(transform, m, cpu) a-priori error bounds established', nbound, 50)
    R.extra['error_bounds'] = table
    for (nf, ni, cf, ci, layout) in (('reim_fft', 'reim_ifft', 'new_reim_fft_precomp', 'new_reim_ifft_precomp', 'reim'),
                                     ('cplx_fft', 'cplx_ifft', 'new_cplx_fft_precomp', 'new_cplx_ifft_precomp', 'cplx')):
        for cpu in ('generic', 'accel'):
            bad = None
            for m in ms:
                try:
                    err, n = check_roundtrip(L, nf, ni, cf, ci, layout, m, cpu)
                except (Unsupported, NeedEnum) as e:
                    R.broke('%s/%s m=%d: %s' % (nf, ni, m, e))
                    continue
                ncoef += n
                if err:
                    bad = bad or (m, err)
            subj = '%s then %s [%s]' % (nf, ni, cpu)
            if bad:
                R.ob('ifft-inverts-fft-up-to-m', subj, 'refuted', detail='m=%d: %s' % bad, key='%s:%s:roundtrip' % (nf, cpu),
                     witness={'m': bad[0], 'cpu': cpu})
            else:
                R.ob('ifft-inverts-fft-up-to-m', subj, 'holds')
    # S: driver schedule and twiddle cursor agree between the table producer and both consumers, for every dimension
    nsched = 0
    for (ctor, entry) in (('new_reim_fft_precomp', 'reim_fft'), ('new_reim_ifft_precomp', 'reim_ifft'),
                          ('new_cplx_fft_precomp', 'cplx_fft'), ('new_cplx_ifft_precomp', 'cplx_ifft')):
        bad = None
        susp = []      # (m, cpu, what differs): the traces differ - a different organisation of the code or a defect
        ref_use = {}
        for cpu in ('generic', 'accel'):
            for k in range(14 if tier == 'quick' else 17):
                m = 1 << k
                try:
                    fill, use, st = schedule_signature(L, ctor, entry, m, cpu)
                except (Unsupported, NeedEnum) as e:
                    R.broke('%s m=%d: %s' % (entry, m, e))
                    continue
                nsched += 1
                if st != 'ok':
                    bad = bad or (m, cpu, 'transform %s' % (st,))
                    continue
                if not use:
                    continue  # trivial dimension: the transform does not consume the table at all
                # recursive drivers may delegate; the breadth-first drivers and the cursor they see on entry/exit are what must agree
                # (twiddles consumed by a recursive level shift the cursor of every later breadth-first call)
                pf = [(p, kd, ms, cur) for (p, kd, ms, cur, d) in fill if kd != 'rec_16']
                pu = [(p, kd, ms, cur) for (p, kd, ms, cur, d) in use if kd != 'rec_16']
                if pf != pu:
                    diff = next((i for i, (a, b) in enumerate(zip(pf, pu)) if a != b), min(len(pf), len(pu)))
                    susp.append((m, cpu, 'table producer and transform disagree at step %d: producer %s, transform %s' % (
                        diff, pf[diff] if diff < len(pf) else None, pu[diff] if diff < len(pu) else None)))
                if cpu == 'generic':
                    ref_use[m] = use
                elif m in ref_use and [x for x in ref_use[m] if x[1] != 'rec_16'] != [x for x in use if x[1] != 'rec_16']:
                    susp.append((m, cpu, 'reference and accelerated transforms follow different driver schedules'))
        decided_by_values = []
        if susp and not bad:
            # The trace is a description of how the code is organised, not of what it computes: a recursion turned into a
            # loop changes it and changes no value. A difference is therefore decided by the values: outputs of the
            # transform at the dimensions where the traces differ (smallest two and largest per path) against the DFT.
            lay, inv = {n: (l, i) for (n, l, i) in fams}[entry]
            want = []
            for cpu in ('generic', 'accel'):
                mm = sorted({m for (m, c, _) in susp if c == cpu and m <= (16384 if tier == 'quick' else 65536)})
                want += [(m, cpu) for m in sorted(set(mm[:2] + mm[-1:]))]
            todo = [(entry, lay, inv, m, cpu) for (m, cpu) in want if (entry, m, cpu) not in valres]
            if todo:
                with ProcessPoolExecutor(max_workers=min(8, len(todo))) as ex:
                    for (jn, jl, ji, m, cpu), (err, n, broke) in zip(todo, ex.map(_sampled_job, todo)):
                        if broke:
                            R.broke('%s m=%d [%s]: %s' % (entry, m, cpu, broke))
                        else:
                            ncoef += n
                            valres[(entry, m, cpu)] = err
            for (m, cpu) in want:
                if (entry, m, cpu) not in valres:
                    continue
                err = valres[(entry, m, cpu)]
                if err:
                    bad = bad or (m, cpu, '%s; outputs at this dimension: %s' % (
                        next(w for (sm, sc, w) in susp if sm == m and sc == cpu), err))
                else:
                    decided_by_values.append('m=%d [%s]' % (m, cpu))
            if not want:
                R.ob('twiddle-producer-and-consumers-follow-the-same-schedule', entry, 'unknown',
                     detail='m=%d [%s]: %s (dimension beyond the value clause)' % susp[0])
                continue
        if bad:
            R.ob('twiddle-producer-and-consumers-follow-the-same-schedule', entry, 'refuted', detail='m=%d [%s]: %s' % bad,
                 key='%s:schedule' % entry, witness={'m': bad[0], 'cpu': bad[1]})
        elif susp:
            R.ob('twiddle-producer-and-consumers-follow-the-same-schedule', entry, 'holds',
                 detail='driver traces of producer and consumer are organised differently (first: m=%d [%s]); decided by values: '
                        'sampled outputs are the DFT at %s' % (susp[0][0], susp[0][1], ', '.join(decided_by_values)))
        else:
            R.ob('twiddle-producer-and-consumers-follow-the-same-schedule', entry, 'holds', detail='m = 1 .. %d' % (1 << (13 if tier == 'quick' else 16)))
    R.floor('(transform, m, cpu) schedules compared', nsched, 100)
    # R: tables read-only (E2)
    nro = 0
    for f in sorted(L.exported(), key=lambda f: f.name):
        if not (f.name.startswith('reim_fft') or f.name.startswith('reim_ifft') or f.name.startswith('cplx_fft') or
                f.name.startswith('cplx_ifft')) or f.name.endswith('_simple'):
            continue
        S = E.summ[f.key]
        from ..effects import FPENV
        if FPENV in S.writes:
            site = (S.write_sites.get(FPENV) or [('?', '?', '?')])[0]
            R.ob('transform-leaves-the-floating-point-environment-alone', f.name, 'refuted',
                 detail='%s changes the floating-point environment (%s at %s): subnormal inputs / later calls are affected' % (
                     f.name, site[2], site[1]), key='%s:fpenv' % f.name, loc=site[1])
        else:
            R.ob('transform-leaves-the-floating-point-environment-alone', f.name, 'holds')
        da = f.d.get('dbgargs') or []
        for j, a in enumerate(da):
            if 'PRECOMP' in a['ty']:
                nro += 1
                S = E.summ[f.key]
                if ('arg', j, 0) in S.writes or ('arg', j, 1) in S.writes:
                    R.ob('transform-does-not-write-its-table', f.name, 'refuted', detail='%s writes through its table' % f.name,
                         key='%s:table-write' % f.name)
                else:
                    R.ob('transform-does-not-write-its-table', f.name, 'holds')
    R.evaluations = ncoef
    R.floor('matrix coefficients compared with the mathematical transform', ncoef, 20000)
    R.floor('transform entry points checked for table writes', nro, 8)
    R.extra['assembly_blocked_instantiations'] = nasm
    R.rules.append('evaluation = one matrix coefficient; obligation = (clause, transform, cpu path)')
    R.assumptions += ['coefficients are those of the code read over the reals with the stored double twiddles; data-path rounding '
                      'is not decided', 'tolerance 16*log2(2m)*2^-53 per matrix entry']
    return R.finish('E4 linear forms (192-bit coefficients) of every transform output compared entrywise with the mathematical DFT '
                    'matrix in the documented bit-reversed order; round trip; E2 read-only tables.')
