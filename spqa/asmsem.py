"""spqa.asmsem — symbolic semantics of the hand-written straight-line AVX/FMA kernels (lifted from the .s text).

The four assembly units of the library are straight-line sequences of fifteen VEX instructions on ymm/xmm registers with
memory operands `disp(%argreg)` (catalogue checked by spqa.asm).  This module executes such a unit symbolically: registers
hold four lanes of E4 expressions, loads and stores go through the value machine, so that the kernel's outputs become
ordinary expression DAGs (fadd / fsub / fmul / fma / fneg over the inputs and twiddles) - the same vocabulary as the C
kernels.  Operand order is AT&T (sources reversed, destination last); lane semantics follow the Intel SDM:
  vaddpd/vsubpd/vmulpd s2,s1,d        d = s1 op s2
  vfmadd231pd s3,s2,d                 d = s2*s3 + d        vfmsub231pd: s2*s3 - d
  vfmaddsub231pd s3,s2,d              even lanes s2*s3 - d, odd lanes s2*s3 + d      vfmsubadd231pd: the opposite
  vshufpd imm,s2,s1,d                 d[2h] = s1[2h + imm[2h]],  d[2h+1] = s2[2h + imm[2h+1]]
  vunpcklpd/vunpckhpd s2,s1,d         d = (s1[0|1], s2[0|1], s1[2|3], s2[2|3])
  vperm2f128 imm,s2,s1,d              each 128-bit half of d selected from {s1.lo, s1.hi, s2.lo, s2.hi} (zero if bit 3 / 7)
  vinsertf128 imm,x,s1,d              d = s1 with half imm&1 replaced by the 128-bit x
  vmovupd                             load / store / move (an xmm destination clears the upper half)
Anything else makes the unit 'not lifted' (its values stay uninterpreted, as before)."""
import os
import re

from .build import REPO
from .values import Sym, sym

ARGREG = {'rdi': 0, 'rsi': 1, 'rdx': 2, 'rcx': 3, 'r8': 4, 'r9': 5}
MEM = re.compile(r'^(-?(?:0x[0-9a-fA-F]+|\d+))?\(%([a-z0-9]+)\)$')
REG = re.compile(r'^%(xmm|ymm)(\d+)$')


class NotLifted(Exception):
    pass


def parse(path):
    """[(mnemonic, [operands])] of the single global function of the unit"""
    prog = []
    fn = None
    text = re.sub(r'/\*.*?\*/', '', open(path).read(), flags=re.S)      # block comments may span lines
    for raw in text.split('\n'):
        line = raw.split('#')[0].strip()
        if not line or line.endswith(':'):
            continue
        if line.startswith('.'):
            if line.startswith('.globl'):
                fn = line.split()[1]
            continue
        parts = line.split(None, 1)
        ops = [o.strip() for o in re.split(r',(?![^(]*\))', parts[1])] if len(parts) > 1 else []
        prog.append((parts[0], ops))
    return fn, prog


def _fneg(x):
    if isinstance(x, float):
        return -x
    if isinstance(x, int) and x == 0:
        return 0
    return sym('fneg', x)


def _bin(op, a, b):
    if isinstance(a, float) and isinstance(b, float):
        return {'fadd': a + b, 'fsub': a - b, 'fmul': a * b}[op]
    a = float(a) if isinstance(a, int) else a
    b = float(b) if isinstance(b, int) else b
    return sym(op, a, b)


def _fma(a, b, c):
    a = float(a) if isinstance(a, int) else a
    b = float(b) if isinstance(b, int) else b
    c = float(c) if isinstance(c, int) else c
    return sym('fma', a, b, c)


def execute(prog, load, store):
    """load(argidx, byte offset) -> lane value ; store(argidx, byte offset, value)"""
    reg = {}

    def get(o):
        m = REG.match(o)
        if not m:
            raise NotLifted('operand ' + o)
        v = reg.get(int(m.group(2)))
        if v is None:
            raise NotLifted('register %s read before being written' % o)
        return list(v) if m.group(1) == 'ymm' else list(v[:2])

    def setr(o, lanes):
        m = REG.match(o)
        if not m:
            raise NotLifted('destination ' + o)
        if m.group(1) == 'xmm':
            lanes = list(lanes[:2]) + [0.0, 0.0]      # VEX-encoded xmm writes clear the upper half
        reg[int(m.group(2))] = list(lanes)

    def mem(o):
        m = MEM.match(o)
        if not m or m.group(2) not in ARGREG:
            return None
        return ARGREG[m.group(2)], (int(m.group(1), 0) if m.group(1) else 0)

    def src(o, n):
        """n lanes from a register or a memory operand"""
        mm = mem(o)
        if mm is not None:
            return [load(mm[0], mm[1] + 8 * j) for j in range(n)]
        v = get(o)
        return v[:n]

    for op, ops in prog:
        if op in ('ret', 'vzeroupper'):
            continue
        if op == 'vmovupd':
            s, d = ops
            md = mem(d)
            if md is not None:
                m = REG.match(s)
                n = 4 if m and m.group(1) == 'ymm' else 2
                v = get(s)
                for j in range(n):
                    store(md[0], md[1] + 8 * j, v[j])
            else:
                m = REG.match(d)
                n = 4 if m and m.group(1) == 'ymm' else 2
                setr(d, src(s, n) + ([0.0, 0.0] if n == 2 else []))
        elif op in ('vaddpd', 'vsubpd', 'vmulpd'):
            s2, s1, d = ops
            n = 4 if REG.match(d).group(1) == 'ymm' else 2
            a, b = src(s1, n), src(s2, n)
            k = {'vaddpd': 'fadd', 'vsubpd': 'fsub', 'vmulpd': 'fmul'}[op]
            setr(d, [_bin(k, a[j], b[j]) for j in range(n)] + ([0.0, 0.0] if n == 2 else []))
        elif op in ('vfmadd231pd', 'vfmsub231pd', 'vfmaddsub231pd', 'vfmsubadd231pd'):
            s3, s2, d = ops
            n = 4 if REG.match(d).group(1) == 'ymm' else 2
            a, b, c = src(s2, n), src(s3, n), get(d)
            out = []
            for j in range(n):
                if op == 'vfmadd231pd':
                    neg = False
                elif op == 'vfmsub231pd':
                    neg = True
                elif op == 'vfmaddsub231pd':
                    neg = (j % 2 == 0)
                else:
                    neg = (j % 2 == 1)
                out.append(_fma(a[j], b[j], _fneg(c[j]) if neg else c[j]))
            setr(d, out + ([0.0, 0.0] if n == 2 else []))
        elif op == 'vshufpd':
            imm, s2, s1, d = ops
            imm = int(imm.lstrip('$'), 0)
            a, b = src(s1, 4), src(s2, 4)
            setr(d, [a[0 + (imm & 1)], b[0 + ((imm >> 1) & 1)], a[2 + ((imm >> 2) & 1)], b[2 + ((imm >> 3) & 1)]])
        elif op in ('vunpcklpd', 'vunpckhpd'):
            s2, s1, d = ops
            a, b = src(s1, 4), src(s2, 4)
            k = 0 if op == 'vunpcklpd' else 1
            setr(d, [a[k], b[k], a[2 + k], b[2 + k]])
        elif op == 'vperm2f128':
            imm, s2, s1, d = ops
            imm = int(imm.lstrip('$'), 0)
            a, b = src(s1, 4), src(s2, 4)
            halves = [a[0:2], a[2:4], b[0:2], b[2:4]]
            lo = [0.0, 0.0] if imm & 0x08 else halves[imm & 3]
            hi = [0.0, 0.0] if imm & 0x80 else halves[(imm >> 4) & 3]
            setr(d, list(lo) + list(hi))
        elif op == 'vinsertf128':
            imm, x, s1, d = ops
            imm = int(imm.lstrip('$'), 0)
            a = src(s1, 4)
            ins = src(x, 2)
            setr(d, (ins + a[2:4]) if (imm & 1) == 0 else (a[0:2] + ins))
        else:
            raise NotLifted('instruction ' + op)


_PROGS = {}


def program(lib, name):
    """parsed program of the assembly kernel `name`, or None"""
    if not _PROGS:
        for rel in lib.meta['asm']:
            p = os.path.join(REPO, 'spqlios', rel)
            try:
                fn, prog = parse(p)
            except OSError:
                continue
            if fn:
                _PROGS[fn] = prog
    return _PROGS.get(name)
