"""spqa.loops — loop catalogue (shape-independent classification of header PHIs) and the closed-form trip-count
solver with exact 64-bit modular semantics (DESIGN Appendix B)."""
from .vals import mask

INF = float('inf')


class LoopInfo:
    """static facts about one natural loop"""

    def __init__(self, f, loop):
        self.f = f
        self.loop = loop
        self.ivs = {}       # phi id -> (start ref, [(sign, step ref | ('gep', scale, ref))])
        self.carried = {}   # phi id -> (start ref, latch ref)  latch value loop-invariant
        self.other = {}     # phi id -> (start ref, latch ref)  anything else (only enumerable)
        self.pre_exit = {}  # exiting block -> set of blocks that may execute in the exit iteration before it
        self._classify()

    def invariant(self, ref):
        if ref.get('k') != 'i':
            return True
        return self.f.instrs[ref['v']].block.id not in self.loop.blocks

    def _classify(self):
        f, L = self.f, self.loop
        hdr = f.blocks[L.header]
        for i in hdr.instrs:
            if i.op != 'phi':
                break
            start = latch = None
            for v, b in i['incoming']:
                if b in L.blocks:
                    latch = v
                else:
                    start = v
            if start is None or latch is None or len(i['incoming']) != 2:
                self.other[i.id] = (start, latch)
                continue
            if self.invariant(latch):
                self.carried[i.id] = (start, latch)
                continue
            steps = self._step_chain(i.id, latch)
            if steps is not None:
                self.ivs[i.id] = (start, steps)
            else:
                self.other[i.id] = (start, latch)

    def _step_chain(self, phi_id, ref):
        """latch value = phi (+|-) invariant ... ; returns list of step terms or None"""
        steps = []
        seen = 0
        while True:
            seen += 1
            if seen > 16:
                return None
            if ref.get('k') != 'i':
                return None
            if ref['v'] == phi_id:
                return steps
            i = self.f.instrs[ref['v']]
            if i.block.id not in self.loop.blocks:
                return None
            # the step instruction must execute exactly once per iteration: in a block that dominates the latch
            if not all(self.f.dominates(i.block.id, l) for l in self.loop.latches):
                return None
            if i.op == 'add':
                a, b = i.ops
                if self.invariant(b):
                    steps.append((1, b, i.ty['bits']))
                    ref = a
                elif self.invariant(a):
                    steps.append((1, a, i.ty['bits']))
                    ref = b
                else:
                    return None
            elif i.op == 'sub':
                a, b = i.ops
                if self.invariant(b):
                    steps.append((-1, b, i.ty['bits']))
                    ref = a
                else:
                    return None
            elif i.op == 'getelementptr':
                g = i['gep']
                for r, sc in g['terms']:
                    if not self.invariant(r):
                        return None
                    steps.append((sc, r, 64))
                if g['const']:
                    steps.append((g['const'], None, 64))
                ref = g['base']
            elif i.op == 'bitcast':
                ref = i.ops[0]
            else:
                return None


_cache = {}


def loop_info(f, lid):
    k = (f.key, lid)
    if k not in _cache:
        _cache[k] = LoopInfo(f, f.loops[lid])
    return _cache[k]


# ------------------------------------------------------------------------------------------------------------
# trip counts

def _egcd(a, b):
    if b == 0:
        return a, 1, 0
    g, x, y = _egcd(b, a % b)
    return g, y, x - (a // b) * y


def first_in_window(c, s, W, bits=64, epochs=64):
    """least k >= 0 with (c + s*k) mod 2^bits < W   (W >= 1); INF if never.
    Exact when it returns a finite value or INF for the single-point / zero-step cases; for sparse windows that are
    skipped for more than `epochs` wrap-arounds it returns ('huge', lower bound)."""
    M = 1 << bits
    c %= M
    s %= M
    if W <= 0:
        return INF
    if c < W:
        return 0
    if s == 0:
        return INF
    if W == 1:
        # solve c + s*k == 0 (mod M)
        g, x, _ = _egcd(s, M)
        t = (-c) % M
        if t % g:
            return INF
        Mg = M // g
        return (t // g * x) % Mg
    neg = s >= M // 2
    if neg:
        # walk downwards: mirror the circle so that the step is positive: y = (W-1 - x) mod M, window stays [0,W)
        c = (W - 1 - c) % M
        s = M - s
    k = 0
    for _ in range(epochs):
        # advance to the first wrap past M
        k1 = -(-(M - c) // s)
        k += k1
        c = c + s * k1 - M
        if c < W:
            return k
        if W >= s:
            # cannot happen: landing position is < s <= W
            return k
    return ('huge', k)


# continue-condition windows: the loop continues while pred(L, R) holds, L = l0 + s*k
def first_fail(pred, l0, s, R, bits=64):
    """least k >= 0 such that NOT pred(l0 + s*k mod 2^bits, R)"""
    M = 1 << bits
    H = M >> 1
    l0 %= M
    R %= M
    s %= M
    # failing set F = {x : not pred(x,R)} as circular interval [lo, lo+W)
    if pred == 'ult':
        lo, W = R, M - R            # x >= R
    elif pred == 'ule':
        lo, W = R + 1, M - R - 1    # x > R
    elif pred == 'ugt':
        lo, W = 0, R + 1            # x <= R
    elif pred == 'uge':
        lo, W = 0, R                # x < R
    elif pred == 'ne':
        lo, W = R, 1                # x == R
    elif pred == 'eq':
        lo, W = R + 1, M - 1        # x != R
    elif pred in ('slt', 'sle', 'sgt', 'sge'):
        # shift by H to turn signed order into unsigned order
        l0 = (l0 + H) % M
        R = (R + H) % M
        return first_fail({'slt': 'ult', 'sle': 'ule', 'sgt': 'ugt', 'sge': 'uge'}[pred], l0, s, R, bits)
    else:
        raise ValueError(pred)
    if W <= 0:
        return INF
    return first_in_window((l0 - lo) % M, s, W, bits)


NEG = {'eq': 'ne', 'ne': 'eq', 'ult': 'uge', 'uge': 'ult', 'ule': 'ugt', 'ugt': 'ule', 'slt': 'sge', 'sge': 'slt',
       'sle': 'sgt', 'sgt': 'sle'}
SWAP = {'eq': 'eq', 'ne': 'ne', 'ult': 'ugt', 'ugt': 'ult', 'ule': 'uge', 'uge': 'ule', 'slt': 'sgt', 'sgt': 'slt',
        'sle': 'sge', 'sge': 'sle'}


def icmp_eval(pred, a, b, bits):
    m = mask(bits)
    a &= m
    b &= m
    if pred in ('slt', 'sle', 'sgt', 'sge'):
        h = 1 << (bits - 1)
        a = a - (1 << bits) if a & h else a
        b = b - (1 << bits) if b & h else b
    return {'eq': a == b, 'ne': a != b, 'ult': a < b, 'ule': a <= b, 'ugt': a > b, 'uge': a >= b, 'slt': a < b,
            'sle': a <= b, 'sgt': a > b, 'sge': a >= b}[pred]
