"""spqa.cg — E1: call graph with field-sensitive, type-based resolution of indirect calls.

Slots: every store of a function address into memory is keyed by (innermost struct tag, byte offset in
that struct); every indirect call whose callee is a load from such a location takes the union of the
functions ever stored under that key.  A function whose address escapes in any other way is reported
(address_escapes) so that the checks can fail with exit 2 rather than silently miss a callee."""
import re
from collections import defaultdict

from .build import AnalysisBroken


def _strip(ref):
    """peel constant-expression casts off a reference"""
    while ref.get('k') == 'ce' and ref['op'] in ('bitcast', 'addrspacecast'):
        ref = ref['ops'][0]
    return ref


class CallGraph:
    def __init__(self, lib):
        self.lib = lib
        self.slot_stores = defaultdict(set)      # slot key -> {function names}
        self.slot_store_sites = defaultdict(list)  # slot key -> [(fn, instr)]
        self.calls = defaultdict(list)           # fn.key -> [(instr, [callee Function...], [external names], slotkey)]
        self.callers = defaultdict(set)
        self.address_taken = defaultdict(list)   # function name -> [(fn, instr, how)]
        self.unresolved = []                     # [(fn, instr, why)]
        self.escapes = []                        # [(fn, instr, funcname)]
        self._build()

    # ---- value helpers -------------------------------------------------------------------------
    def fn_constants(self, f, ref, seen=None):
        """set of function names a value may be, following phi/select/casts; None in the set = something else"""
        if seen is None:
            seen = set()
        ref = _strip(ref)
        k = ref.get('k')
        if k == 'g' and ref.get('fn'):
            return {ref['v']}
        if k == 'g' and ref.get('alias'):
            return {ref['v']}  # keep the alias name; Library.resolve()/fn() follow it
        if k == 'n' or k == 'u':
            return set()
        if k == 'a':
            # a function-pointer parameter of an internal function that is only ever called directly: the union of the
            # functions passed at its call sites (context-insensitive); anything else is unknown
            tag = ('arg', f.key, ref['v'])
            if tag in seen:
                return set()
            seen.add(tag)
            sites = self.direct_sites.get(f.key)
            if not f.internal or not sites or f.name in self.addr_taken_names:
                return {None}
            out = set()
            for (cf, ci) in sites:
                if ref['v'] >= len(ci.ops):
                    return {None}
                out |= self.fn_constants(cf, ci.ops[ref['v']], seen)
            return out
        if k == 'i':
            if ref['v'] in seen:
                return set()
            seen.add(ref['v'])
            i = f.instrs[ref['v']]
            if i.op == 'phi':
                out = set()
                for v, _ in i['incoming']:
                    out |= self.fn_constants(f, v, seen)
                return out
            if i.op == 'select':
                return self.fn_constants(f, i.ops[1], seen) | self.fn_constants(f, i.ops[2], seen)
            if i.op == 'bitcast':
                return self.fn_constants(f, i.ops[0], seen)
            return {None}
        return {None}

    def _param_only_called(self, t, idx, seen):
        """parameter idx of the internal, never address-taken function t is used only as the target of calls (or handed on
        to a parameter with the same discipline)"""
        if (t.key, idx) in seen:
            return True
        seen.add((t.key, idx))
        if not t.internal or t.name in self.addr_taken_names:
            return False

        def is_param(ref):
            r = _strip(ref)
            return r.get('k') == 'a' and r.get('v') == idx

        for i in t.all_instrs():
            if i.op == 'call':
                for ai, a in enumerate(i.ops):
                    if is_param(a):
                        u = self.lib.resolve(t.unit, i['callee']) if (i.get('callee') is not None and not i.get('intrinsic')) else None
                        if u is None or not self._param_only_called(u, ai, seen):
                            return False
                continue
            for o in i.ops:
                if isinstance(o, dict) and is_param(o):
                    if i.op == 'bitcast':
                        return False        # keep it simple: a cast parameter is not followed
                    return False
            if i.op == 'phi':
                for v, _ in i['incoming']:
                    if is_param(v):
                        return False
        return True

    def slot_key(self, f, ref, depth=0):
        """(struct tag, byte offset) of the memory location `ref` points to, or None"""
        if depth > 8:
            return None
        ref0 = ref
        ref = _strip(ref)
        k = ref.get('k')
        gep = None
        if k == 'i':
            i = f.instrs[ref['v']]
            if i.op == 'getelementptr':
                gep = i['gep']
            elif i.op == 'bitcast':
                src = i['srcty']['s']
                key = self._struct_ptr_key(src)
                if key:
                    return self._norm(key)
                # i8* (malloc result ...) also cast to a struct pointer elsewhere in the function
                s0 = _strip(i.ops[0])
                if s0.get('k') == 'i':
                    for j in f.all_instrs():
                        if j.op == 'bitcast' and j is not i and _strip(j.ops[0]) == s0:
                            key = self._struct_ptr_key(j.ty['s'])
                            if key:
                                return self._norm(key)
                return self.slot_key(f, i.ops[0], depth + 1)
            elif i.op in ('phi', 'select'):
                vals = [v for v, _ in i['incoming']] if i.op == 'phi' else i.ops[1:]
                keys = {self.slot_key(f, v, depth + 1) for v in vals}
                keys.discard(None)
                if len(keys) == 1:
                    return keys.pop()
                return None
            else:
                return None
        elif k == 'ce' and ref['op'] == 'getelementptr':
            gep = ref['gep']
        elif k == 'ce':
            return None
        elif k == 'g':
            # pointer to a global used directly: look at its value type
            g = self.lib.resolve_global(f.unit, ref['v'])
            if g is not None:
                key = self._struct_key_from_ty(g['ty']['s'])
                return self._norm(key) if key else None
            return None
        elif k == 'a':
            key = self._struct_ptr_key(f.args[ref['v']]['ty']['s'])
            return self._norm(key) if key else None
        if gep is None:
            # constant bitcast of a global (ce stripped above) handled through k == 'g'
            return None
        if gep['path']:
            last = gep['path'][-1]
            # offset inside the innermost struct = field offset + constant tail after that struct step
            tail = gep['const'] - (last['at'] + last['off'])
            return self._norm((last['struct'], last['off'] + tail))
        # no struct step: array/pointer indexing over a struct element type
        key = self._struct_key_from_ty(gep['srcty'])
        if key:
            return self._norm((key[0], 0))
        return None

    def _norm(self, key):
        """descend into nested struct fields: (outer, off) -> (innermost struct holding that offset, off')"""
        name, off = key
        for _ in range(8):
            sd = self.lib.structs.get(name)
            if not sd:
                break
            inner = None
            for fd in sd['fields']:
                if fd['off'] <= off and fd['ty'].get('k') == 'struct' and off < fd['off'] + fd['ty'].get('bytes', 0):
                    inner = fd
            if inner is None:
                break
            t = inner['ty']['s']
            m = re.match(r'%([A-Za-z0-9_.]+)', t)
            if not m:
                break
            name, off = m.group(1), off - inner['off']
        return (name, off)

    def _struct_ptr_key(self, tys):
        if tys.endswith('*'):
            return self._struct_key_from_ty(tys[:-1])
        return None

    def _struct_key_from_ty(self, tys):
        tys = tys.strip()
        # [N x T]
        while tys.startswith('['):
            x = tys.find(' x ')
            tys = tys[x + 3:-1].strip()
        if tys.startswith('%'):
            name = tys[1:]
            if ' = type' in name:
                name = name.split(' = type')[0]
            if name.endswith('*'):
                return None
            return (name, 0)
        return None

    # ---- construction --------------------------------------------------------------------------
    def _build(self):
        lib = self.lib
        # direct call sites per callee and the names whose address is taken (needed to resolve function-pointer parameters)
        self.direct_sites = defaultdict(list)
        self.addr_taken_names = set()
        for f in lib.functions.values():
            for i in f.all_instrs():
                if i.op == 'call' and not i.get('intrinsic') and i.get('callee') is not None:
                    t = lib.resolve(f.unit, i['callee'])
                    if t is not None:
                        self.direct_sites[t.key].append((f, i))
                if i.op in ('store', 'ret'):
                    for o in i.ops[:1]:
                        r = _strip(o)
                        if r.get('k') == 'g' and r.get('fn'):
                            self.addr_taken_names.add(r['v'])
        for f in lib.functions.values():
            for i in f.all_instrs():
                if i.op == 'store':
                    fns = self.fn_constants(f, i.ops[0])
                    real = {x for x in fns if x}
                    if real:
                        key = self.slot_key(f, i.ops[1])
                        if key is None:
                            for x in real:
                                self.escapes.append((f, i, x))
                        else:
                            self.slot_stores[key] |= real
                            self.slot_store_sites[key].append((f, i))
                        for x in real:
                            self.address_taken[x].append((f, i, 'store'))
                elif i.op == 'call':
                    # function addresses passed as arguments escape - unless the callee is an internal function called only
                    # directly whose parameter is used as a call target only (resolved through fn_constants)
                    for ai, a in enumerate(i.ops):
                        fns = {x for x in self.fn_constants(f, a) if x}
                        if not fns:
                            continue
                        t = lib.resolve(f.unit, i['callee']) if (i.get('callee') is not None and not i.get('intrinsic')) else None
                        safe = t is not None and self._param_only_called(t, ai, set())
                        for x in fns:
                            if not safe:
                                self.escapes.append((f, i, x))
                            self.address_taken[x].append((f, i, 'arg'))
                elif i.op == 'ret' and i.ops:
                    fns = {x for x in self.fn_constants(f, i.ops[0]) if x}
                    for x in fns:
                        self.escapes.append((f, i, x))
        # global initialisers holding function addresses
        for (u, n), g in lib.globals.items():
            self._scan_init(g, g.get('init'))
        for f in lib.functions.values():
            for i in f.all_instrs():
                if i.op != 'call':
                    continue
                if i.get('intrinsic'):
                    continue
                c = i.get('callee')
                if c is not None:
                    t = lib.resolve(f.unit, c)
                    if t is not None:
                        self.calls[f.key].append((i, [t], [], None))
                        self.callers[t.key].add(f.key)
                    else:
                        self.calls[f.key].append((i, [], [c], None))
                    continue
                # indirect
                cref = i['calleeref']
                direct = {x for x in self.fn_constants(f, cref)}
                if direct and None not in direct:
                    ts = [lib.resolve(f.unit, x) for x in sorted(direct)]
                    self.calls[f.key].append((i, [t for t in ts if t], [x for x, t in zip(sorted(direct), ts) if not t], None))
                    continue
                key = None
                cr = _strip(cref)
                if cr.get('k') == 'i':
                    li = f.instrs[cr['v']]
                    if li.op == 'load':
                        key = self.slot_key(f, li.ops[0])
                    elif li.op == 'phi' or li.op == 'bitcast':
                        pass
                if key is None or key not in self.slot_stores:
                    self.unresolved.append((f, i, 'slot %r' % (key,)))
                    self.calls[f.key].append((i, [], [], key))
                    continue
                names = sorted(self.slot_stores[key])
                ts = [lib.resolve(f.unit, x) or lib.fn(x) for x in names]
                self.calls[f.key].append((i, [t for t in ts if t], [x for x, t in zip(names, ts) if not t], key))
                for t in ts:
                    if t:
                        self.callers[t.key].add(f.key)

    def _scan_init(self, g, init):
        if not init:
            return
        k = init.get('k')
        if k == 'cv' and g.get('const') and init.get('ty', {}).get('k') == 'struct':
            # a constant table of a named struct type (a template copied into an object of that type): the function
            # addresses it holds are what the slots (struct, offset) may contain, exactly like stores into those slots
            name = init['ty']['s'].lstrip('%').split(' = ')[0]
            sd = self.lib.structs.get(name)
            if sd and len(sd['fields']) == len(init['elems']):
                rest = []
                for fd, e in zip(sd['fields'], init['elems']):
                    r = _strip(e) if isinstance(e, dict) and e.get('k') in ('g', 'ce') else e
                    if isinstance(r, dict) and r.get('k') == 'g' and r.get('fn'):
                        self.slot_stores[self._norm((name, fd['off']))].add(r['v'])
                        self.address_taken[r['v']].append((None, g['name'], 'constant table'))
                    else:
                        rest.append(e)
                for e in rest:
                    self._scan_init(g, e)
                return
        if k == 'g' and init.get('fn'):
            self.escapes.append((None, g['name'], init['v']))
        elif k in ('cv',):
            for e in init['elems']:
                self._scan_init(g, e)
        elif k == 'ce':
            for e in init['ops']:
                self._scan_init(g, e)

    # ---- queries --------------------------------------------------------------------------------
    def callees(self, f):
        out = []
        for i, ts, ext, key in self.calls.get(f.key, []):
            out.extend(ts)
        return out

    def reachable(self, roots):
        seen = {}
        work = list(roots)
        while work:
            f = work.pop()
            if f.key in seen:
                continue
            seen[f.key] = f
            for t in self.callees(f):
                if t.key not in seen:
                    work.append(t)
        return list(seen.values())

    def sccs(self):
        """Tarjan SCCs in reverse topological order (callees first)"""
        index = {}
        low = {}
        onstack = set()
        stack = []
        out = []
        counter = [0]
        import sys
        sys.setrecursionlimit(10000)

        def strong(f):
            index[f.key] = low[f.key] = counter[0]
            counter[0] += 1
            stack.append(f)
            onstack.add(f.key)
            for t in self.callees(f):
                if t.key not in index:
                    strong(t)
                    low[f.key] = min(low[f.key], low[t.key])
                elif t.key in onstack:
                    low[f.key] = min(low[f.key], index[t.key])
            if low[f.key] == index[f.key]:
                comp = []
                while True:
                    w = stack.pop()
                    onstack.discard(w.key)
                    comp.append(w)
                    if w.key == f.key:
                        break
                out.append(comp)

        for f in self.lib.functions.values():
            if f.key not in index:
                strong(f)
        return out
