"""spqa.ctx — shared, lazily built analysis context (library IR, call graph, effects) for the checks."""
import glob
import json
import os
import shutil
import subprocess
import tempfile

from . import build as _build
from .build import AnalysisBroken, VERIF
from .ir import Library

_ctx = {}


def lib():
    if 'lib' not in _ctx:
        _ctx['lib'] = Library(_build.build())
    return _ctx['lib']


def cg():
    if 'cg' not in _ctx:
        from .cg import CallGraph
        _ctx['cg'] = CallGraph(lib())
    return _ctx['cg']


def effects():
    if 'eff' not in _ctx:
        from .effects import Effects
        _ctx['eff'] = Effects(lib(), cg())
    return _ctx['eff']


def fixtures():
    """the canary fixtures compiled by the same pipeline: (Library, CallGraph, Effects)"""
    if 'fx' in _ctx:
        return _ctx['fx']
    from .cg import CallGraph
    from .effects import Effects
    srcs = sorted(glob.glob(os.path.join(VERIF, 'fixtures', '*.c')))
    if not srcs:
        raise AnalysisBroken('no canary fixtures found')
    d = tempfile.mkdtemp(prefix='spqa-fx-')
    try:
        units = []
        for s in srcs:
            rel = 'fixtures/' + os.path.basename(s)
            stem = rel.replace('/', '__')
            bc0, bc1, js = (os.path.join(d, stem + x) for x in ('.0.bc', '.bc', '.json'))
            for cmd in ([_build.CLANG, '-O0', '-Xclang', '-disable-O0-optnone', '-fwrapv', '-g', '-DNDEBUG', '-mavx2', '-mfma',
                         '-emit-llvm', '-c', s, '-o', bc0],
                        [_build.OPT, '-passes=' + _build.PASSES, bc0, '-o', bc1],
                        [_build.IRDUMP, bc1, js, rel]):
                r = subprocess.run(cmd, stdout=subprocess.PIPE, stderr=subprocess.STDOUT, text=True)
                if r.returncode != 0:
                    raise AnalysisBroken('fixture build failed: %s\n%s' % (' '.join(cmd), r.stdout[-2000:]))
            units.append(rel)
        json.dump({'key': 'fixtures', 'units': units, 'asm': [], 'flags': {}, 'passes': _build.PASSES},
                  open(os.path.join(d, 'meta.json'), 'w'))
        L = Library(d)
    finally:
        shutil.rmtree(d, ignore_errors=True)
    G = CallGraph(L)
    E = Effects(L, G)
    _ctx['fx'] = (L, G, E)
    return _ctx['fx']
