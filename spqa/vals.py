"""spqa.vals — abstract values of the region engine (E3).

Integers are exact (64-bit modular); a value inside an accelerated ('uniform') loop may be affine in the loop
counters: Aff(c0, {loopkey: coef}).  Pointers are (object, offset) with an exact or affine offset.  Data values
(anything loaded from a caller buffer, floating point that is not a known constant) are Opaque."""

M64 = (1 << 64) - 1


class NeedEnum(Exception):
    """a computation needs the concrete value of loop counter `key`: the loop must be enumerated"""

    def __init__(self, key, why=''):
        Exception.__init__(self, 'need enumeration of loop %r: %s' % (key, why))
        self.key = key
        self.why = why


class NeedDecision(Exception):
    """a branch on a data value was reached and no decision is scheduled for it (path enumeration, machine.decisions)"""


class Unsupported(Exception):
    """IR construct or situation outside the engine's catalogue (becomes exit 2 unless covered by a trusted summary)"""


class Aborted(Exception):
    """the evaluated path reaches abort()/unreachable"""

    def __init__(self, where):
        Exception.__init__(self, 'aborts at %s' % (where,))
        self.where = where


class Opaque:
    __slots__ = ('tag',)

    def __init__(self, tag='data'):
        self.tag = tag

    def __repr__(self):
        return '<opaque %s>' % self.tag


OPAQUE = Opaque('data')
UNINIT = Opaque('uninit')


class FnPtr:
    __slots__ = ('name',)

    def __init__(self, name):
        self.name = name

    def __eq__(self, o):
        return isinstance(o, FnPtr) and o.name == self.name

    def __hash__(self):
        return hash(('fn', self.name))

    def __repr__(self):
        return '<fn %s>' % self.name


class Aff:
    """c0 + sum coef[k]*K_k  (mod 2^bits)"""
    __slots__ = ('c0', 'co', 'bits')

    def __init__(self, c0, co, bits=64):
        self.c0 = c0
        self.co = co  # dict loopkey -> coef (non-zero)
        self.bits = bits

    def __repr__(self):
        return '<aff %d %s>' % (self.c0, ' '.join('+%d*K%s' % (c, k) for k, c in self.co.items()))


def mask(bits):
    return (1 << bits) - 1


def mk_aff(c0, co, bits=64):
    m = mask(bits)
    co = {k: v & m for k, v in co.items() if v & m}
    if not co:
        return c0 & m
    return Aff(c0 & m, co, bits)


def is_int(v):
    return isinstance(v, int) and not isinstance(v, bool)


def aff_parts(v, bits=64):
    if is_int(v):
        return v, {}
    if isinstance(v, Aff):
        return v.c0, v.co
    return None


def aff_add(a, b, bits=64, sign=1):
    pa, pb = aff_parts(a), aff_parts(b)
    if pa is None or pb is None:
        return None
    co = dict(pa[1])
    for k, v in pb[1].items():
        co[k] = co.get(k, 0) + sign * v
    return mk_aff(pa[0] + sign * pb[0], co, bits)


def aff_mul(a, c, bits=64):
    """a (int/Aff) times concrete c"""
    pa = aff_parts(a)
    if pa is None:
        return None
    return mk_aff(pa[0] * c, {k: v * c for k, v in pa[1].items()}, bits)


def first_key(v):
    if isinstance(v, Aff):
        return next(iter(v.co))
    if isinstance(v, Ptr) and isinstance(v.off, Aff):
        return next(iter(v.off.co))
    return None


def signed(x, bits):
    x &= mask(bits)
    return x - (1 << bits) if x >> (bits - 1) else x


class Obj:
    """an abstract memory object"""
    _n = 0

    def __init__(self, kind, name, size=None, role=None, fields=True):
        Obj._n += 1
        self.id = Obj._n
        self.kind = kind        # 'arg' | 'heap' | 'alloca' | 'global' | 'cpu' | 'const' | 'unknown'
        self.name = name
        self.size = size        # bytes (int) or None
        self.role = role
        self.fields = {} if fields else None   # offset -> (bytes, value) for struct-like tracked objects
        self.zeroed = False
        self.smashed = False
        self.freed = False
        self.alias_of = None    # (Obj, delta) when this argument object is declared to alias another
        self.init = None        # global initialiser
        self.site = None

    def __repr__(self):
        return '<obj %s:%s>' % (self.kind, self.name)


class Ptr:
    __slots__ = ('obj', 'off', 'via', 'slack')

    def __init__(self, obj, off=0, via=None, slack=0):
        self.obj = obj
        self.off = off
        self.via = via   # name of the entry-point parameter this pointer was derived from (provenance label)
        self.slack = slack  # the true offset lies in [off, off+slack] (pointer rounded up to an alignment the object lacks)


class PtrAfter(Opaque):
    """truth value of `object A lies after object B in memory` (two distinct objects): unknown, but one and the same unknown
    wherever the pair is compared"""
    __slots__ = ('A', 'B')

    def __init__(self, A, B):
        Opaque.__init__(self, 'order of two objects')
        self.A, self.B = A, B


class PtrDiff(Opaque):
    """address of p minus address of q, pointers into two distinct objects (in-bounds constant offsets)"""
    __slots__ = ('p', 'q', 'abs')

    def __init__(self, p, q, abs=False):
        Opaque.__init__(self, 'distance of two objects')
        self.p, self.q, self.abs = p, q, abs      # abs: |p - q|

    def lower(self):
        """lower bound of |p - q|: the later object starts at or after the end of the earlier one"""
        p, q = self.p, self.q
        return min(q.obj.size - q.off + p.off, p.obj.size - p.off + q.off)


class AlignDep(Opaque):
    """a value that depends on the low address bits of a buffer whose alignment is not guaranteed; `assume` is its value
    if the buffer happened to be aligned"""
    __slots__ = ('assume',)

    def __init__(self, assume):
        Opaque.__init__(self, 'alignment')
        self.assume = assume


class PtrBits(Opaque):
    """bitwise combination of several pointers (only its low bits can be meaningful)"""
    __slots__ = ('ptrs',)

    def __init__(self, ptrs):
        Opaque.__init__(self, 'ptrbits')
        self.ptrs = ptrs

    def __repr__(self):
        return '<ptr %s+%s>' % (self.obj.name, self.off)


NULL = 0  # null pointers are the integer 0
