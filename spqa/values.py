"""spqa.values — E4: symbolic values of data (expression DAGs) and their normal forms.

Used by ValueMachine (a Machine in fully ordered mode whose data buffers hold expressions instead of 'opaque'):
  * every load from a caller buffer / table yields the expression currently stored there, or the initial-content
    symbol in(obj, offset, size);
  * vector values are tuples of lane expressions; shuffles, unpacks, inserts are exact lane maps;
  * integer arithmetic is normalised as a polynomial over Z/2^bits, floating-point arithmetic is read as arithmetic
    over the reals (fma(a,b,c) = a*b+c) and normalised as a polynomial with rational coefficients: two kernels with
    equal normal forms differ only by rounding order;
  * everything else (and/or/shifts of data, rint, comparisons, selects) stays an uninterpreted node with normalised
    arguments, compared structurally."""
from fractions import Fraction

from .vals import Opaque, is_int, mask, signed

_intern = {}


class Sym:
    __slots__ = ('e', 'h')

    def __init__(self, e):
        self.e = e
        self.h = hash(e)

    def __hash__(self):
        return self.h

    def __eq__(self, o):
        return isinstance(o, Sym) and (self is o or self.e == o.e)

    def __repr__(self):
        return 'S' + fmt(self)


def sym(*e):
    s = _intern.get(e)
    if s is None:
        s = Sym(e)
        _intern[e] = s
    return s


class Vec:
    __slots__ = ('lanes', 'ebits', 'fp')

    def __init__(self, lanes, ebits, fp):
        self.lanes = list(lanes)
        self.ebits = ebits
        self.fp = fp

    def __repr__(self):
        return '<vec %dx%s%d %s>' % (len(self.lanes), 'f' if self.fp else 'i', self.ebits, self.lanes[:2])


def is_data(v):
    return isinstance(v, (Sym, Vec))


def fmt(v, depth=0):
    if isinstance(v, Sym):
        e = v.e
        if depth > 6:
            return '...'
        if e[0] == 'in':
            return '%s[%d:%d]' % (e[1], e[2], e[3])
        return '%s(%s)' % (e[0], ','.join(fmt(x, depth + 1) for x in e[1:]))
    if isinstance(v, Vec):
        return '<' + ','.join(fmt(x, depth + 1) for x in v.lanes) + '>'
    return repr(v)


# ------------------------------------------------------------------------------------------------------------
# normal forms

class Canon:
    """canonical form of scalar values; memoised"""

    def __init__(self):
        self.memo = {}
        self.atoms = {}

    def atom_id(self, key):
        a = self.atoms.get(key)
        if a is None:
            a = len(self.atoms)
            self.atoms[key] = a
        return a

    # polynomials: dict monomial(tuple of atom ids sorted) -> coeff
    def _padd(self, p, q, sgn=1):
        r = dict(p)
        for m, c in q.items():
            v = r.get(m, 0) + sgn * c
            if v:
                r[m] = v
            else:
                r.pop(m, None)
        return r

    def _pmul(self, p, q):
        r = {}
        if len(p) * len(q) > 200000:
            raise OverflowError('polynomial too large')
        for m1, c1 in p.items():
            for m2, c2 in q.items():
                m = tuple(sorted(m1 + m2))
                v = r.get(m, 0) + c1 * c2
                if v:
                    r[m] = v
                else:
                    r.pop(m, None)
        return r

    def real(self, v):
        """real polynomial (Fraction coefficients) of a floating-point valued expression"""
        k = ('R', id(v) if isinstance(v, Sym) else v)
        if isinstance(v, Sym) and k in self.memo:
            return self.memo[k]
        if isinstance(v, float):
            if v != v or v in (float('inf'), float('-inf')):
                return {(self.atom_id(('const', repr(v))),): Fraction(1)}
            return {(): Fraction(v)} if v != 0 else {}
        if is_int(v):
            return {(): Fraction(v)} if v else {}
        if not isinstance(v, Sym):
            return {(self.atom_id(('opaque', id(v))),): Fraction(1)}
        e = v.e
        op = e[0]
        if op == 'fadd':
            r = self._padd(self.real(e[1]), self.real(e[2]))
        elif op == 'fsub':
            r = self._padd(self.real(e[1]), self.real(e[2]), -1)
        elif op == 'fmul':
            r = self._pmul(self.real(e[1]), self.real(e[2]))
        elif op == 'fneg':
            r = {m: -c for m, c in self.real(e[1]).items()}
        elif op == 'fma':
            r = self._padd(self._pmul(self.real(e[1]), self.real(e[2])), self.real(e[3]))
        elif op == 'fdiv' and isinstance(e[2], float) and e[2] != 0:
            q = Fraction(1) / Fraction(e[2])
            r = {m: c * q for m, c in self.real(e[1]).items()}
        elif op == 'xor' and e[1] == 64 and ((is_int(e[3]) and e[3] == 1 << 63) or (is_int(e[2]) and e[2] == 1 << 63)):
            # _mm256_xor_pd(x, -0.0): sign flip of a double
            x = e[2] if is_int(e[3]) else e[3]
            r = {m: -c for m, c in self.real(x).items()}
        else:
            r = {(self.atom_id(self.struct(v)),): Fraction(1)}
        self.memo[k] = r
        return r

    def ring(self, v, bits):
        """polynomial over Z/2^bits of an integer valued expression"""
        M = 1 << bits
        if is_int(v):
            c = v % M
            return {(): c} if c else {}
        if not isinstance(v, Sym):
            return {(self.atom_id(('opaque', id(v))),): 1}
        k = ('Z', bits, v)
        if k in self.memo:
            return self.memo[k]
        e = v.e
        op = e[0]
        r = None
        if op in ('add', 'sub', 'mul') and e[1] == bits:
            a, b = self.ring(e[2], bits), self.ring(e[3], bits)
            if op == 'add':
                r = self._padd(a, b)
            elif op == 'sub':
                r = self._padd(a, b, -1)
            else:
                r = self._pmul(a, b)
        elif op == 'shl' and e[1] == bits and is_int(e[3]) and e[3] < bits:
            r = {m: c << e[3] for m, c in self.ring(e[2], bits).items()}
        if r is None:
            r = {(self.atom_id(self.struct(v)),): 1}
        r = {m: c % M for m, c in r.items() if c % M}
        self.memo[k] = r
        return r

    def _is_fp(self, v):
        return isinstance(v, float) or (isinstance(v, Sym) and v.e[0] in ('fadd', 'fsub', 'fmul', 'fneg', 'fma', 'fdiv', 'in'))

    def struct(self, v):
        """hashable structural key with normalised children"""
        if isinstance(v, float):
            return ('f', 0.0 if v == 0 else v)
        if is_int(v):
            return ('i', v)
        if not isinstance(v, Sym):
            return ('opaque', id(v))
        k = ('S', v)
        if k in self.memo:
            return self.memo[k]
        e = v.e
        op = e[0]
        if op in ('in',):
            r = e
        elif op in ('fadd', 'fsub', 'fmul', 'fneg', 'fma', 'fdiv'):
            p = self.real(v)
            r = ('Rpoly', frozenset(p.items()))
        elif (op in ('add', 'sub', 'mul') or (op == 'shl' and is_int(e[3]) and e[3] < e[1])) and is_int(e[1]):
            p = self.ring(v, e[1])
            if len(p) == 1 and list(p.values())[0] == 1 and len(list(p.keys())[0]) == 1 and op == 'shl':
                r = (op, e[1]) + tuple(self.struct(x) for x in e[2:])
            else:
                r = ('Zpoly', e[1], frozenset(p.items()))
        elif op == 'xor' and e[1] == 64 and ((is_int(e[3]) and e[3] == 1 << 63) or (is_int(e[2]) and e[2] == 1 << 63)) and \
                self._is_fp(e[2] if is_int(e[3]) else e[3]):
            p = self.real(v)
            r = ('Rpoly', frozenset(p.items()))
        elif op in ('and', 'or', 'xor') and is_int(e[1]):
            r = (op, e[1], frozenset([self.struct(e[2]), self.struct(e[3])]))
        else:
            r = (op,) + tuple(self.struct(x) if isinstance(x, (Sym, float)) or is_int(x) else x for x in e[1:])
        self.memo[k] = r
        return r

    def key(self, v, fp=None):
        """canonical key of a scalar value"""
        if isinstance(v, Opaque):
            return ('opaque', id(v))
        if isinstance(v, float):
            if v == 0:
                return ('zero',)
            return ('Rpoly', frozenset(self.real(v).items()))
        if is_int(v):
            return ('zero',) if v == 0 else ('i', v)
        k = self.struct(v)
        if (k[0] == 'Rpoly' and not k[1]) or (k[0] == 'Zpoly' and not k[2]):
            return ('zero',)
        return k


def same(canon, a, b):
    ka, kb = canon.key(a), canon.key(b)
    if ka == kb:
        return True
    # integer zero vs real zero etc.
    return False
