"""spqa.contract — frozen contract of the module-level API (DESIGN Appendix A) and the shape boxes.

Each entry lists the parameters in call order.  Parameter kinds:
  ('module',)
  ('int', name)                         shape parameter (value from the shape tuple)
  ('k', name)                           log2 base / rotation amount etc.: value from the shape tuple
  ('vec', name, role, size, sl)         int64 limb vector: limbs i < size at byte 8*i*sl, 8*N bytes each
  ('dft', name, role, size)             VEC_ZNX_DFT: [0, bytes_of_vec_znx_dft(module,size)), limb i at i*bytes_of(.,1)
  ('big', name, role, size)             VEC_ZNX_BIG likewise
  ('ppol', name, role)                  SVP_PPOL
  ('pmat', name, role, nrows, ncols)    VMP_PMAT
  ('poly', name, role)                  one polynomial: [0, 8*N)
  ('mat', name, role, nrows, ncols)     contiguous integer matrix: [0, 8*N*nrows*ncols)
  ('tmp', name, fn, [arg names])        scratch of fn(module, args...) bytes
roles: in | out | inout (documented overwrite) ; 'alias': list of (out, in) pairs that may be the same buffer.
'ranges' gives the quick/thorough domain of every shape parameter that is not a plain size."""

SIZES_Q = [0, 1, 2, 3]
SIZES_T = [0, 1, 2, 3, 5]

API = {
    'vec_znx_zero': dict(params=[('module',), ('vec', 'res', 'out', 'res_size', 'res_sl'), ('int', 'res_size'), ('int', 'res_sl')],
                         alias=[]),
    'vec_znx_copy': dict(params=[('module',), ('vec', 'res', 'out', 'res_size', 'res_sl'), ('int', 'res_size'), ('int', 'res_sl'),
                                 ('vec', 'a', 'in', 'a_size', 'a_sl'), ('int', 'a_size'), ('int', 'a_sl')],
                         alias=[('res', 'a')], op='copy'),
    'vec_znx_negate': dict(params=[('module',), ('vec', 'res', 'out', 'res_size', 'res_sl'), ('int', 'res_size'), ('int', 'res_sl'),
                                   ('vec', 'a', 'in', 'a_size', 'a_sl'), ('int', 'a_size'), ('int', 'a_sl')],
                           alias=[('res', 'a')], op='neg'),
    'vec_znx_add': dict(params=[('module',), ('vec', 'res', 'out', 'res_size', 'res_sl'), ('int', 'res_size'), ('int', 'res_sl'),
                                ('vec', 'a', 'in', 'a_size', 'a_sl'), ('int', 'a_size'), ('int', 'a_sl'),
                                ('vec', 'b', 'in', 'b_size', 'b_sl'), ('int', 'b_size'), ('int', 'b_sl')],
                        alias=[('res', 'a'), ('res', 'b')], op='add'),
    'vec_znx_sub': dict(params=[('module',), ('vec', 'res', 'out', 'res_size', 'res_sl'), ('int', 'res_size'), ('int', 'res_sl'),
                                ('vec', 'a', 'in', 'a_size', 'a_sl'), ('int', 'a_size'), ('int', 'a_sl'),
                                ('vec', 'b', 'in', 'b_size', 'b_sl'), ('int', 'b_size'), ('int', 'b_sl')],
                        alias=[('res', 'a'), ('res', 'b')], op='sub'),
    'vec_znx_rotate': dict(params=[('module',), ('k', 'p'), ('vec', 'res', 'out', 'res_size', 'res_sl'), ('int', 'res_size'),
                                   ('int', 'res_sl'), ('vec', 'a', 'in', 'a_size', 'a_sl'), ('int', 'a_size'), ('int', 'a_sl')],
                           alias=[('res', 'a')], ranges={'p': [0, 1, 5, -3]}),
    'vec_znx_automorphism': dict(params=[('module',), ('k', 'p'), ('vec', 'res', 'out', 'res_size', 'res_sl'), ('int', 'res_size'),
                                         ('int', 'res_sl'), ('vec', 'a', 'in', 'a_size', 'a_sl'), ('int', 'a_size'),
                                         ('int', 'a_sl')],
                                 alias=[('res', 'a')], ranges={'p': [1, 3, 5, -1]}),
    'vec_znx_normalize_base2k': dict(params=[('module',), ('k', 'log2_base2k'), ('vec', 'res', 'out', 'res_size', 'res_sl'),
                                             ('int', 'res_size'), ('int', 'res_sl'), ('vec', 'a', 'in', 'a_size', 'a_sl'),
                                             ('int', 'a_size'), ('int', 'a_sl'),
                                             ('tmp', 'tmp_space', 'vec_znx_normalize_base2k_tmp_bytes', [])],
                                     alias=[('res', 'a')], ranges={'log2_base2k': [19, 1, 62]}),
    'vec_znx_dft': dict(params=[('module',), ('dft', 'res', 'out', 'res_size'), ('int', 'res_size'),
                                ('vec', 'a', 'in', 'a_size', 'a_sl'), ('int', 'a_size'), ('int', 'a_sl')], alias=[],
                        modules=['fft64', 'ntt120']),
    'vec_znx_idft': dict(params=[('module',), ('big', 'res', 'out', 'res_size'), ('int', 'res_size'),
                                 ('dft', 'a_dft', 'in', 'a_size'), ('int', 'a_size'),
                                 ('tmp', 'tmp', 'vec_znx_idft_tmp_bytes', [])],
                         alias=[('res', 'a_dft')], modules=['fft64', 'ntt120'], alias_modules=['fft64']),
    'vec_znx_idft_tmp_a': dict(params=[('module',), ('big', 'res', 'out', 'res_size'), ('int', 'res_size'),
                                       ('dft', 'a_dft', 'inout', 'a_size'), ('int', 'a_size')],
                               alias=[('res', 'a_dft')], modules=['fft64', 'ntt120'], alias_modules=['fft64']),
    'vec_znx_big_add': dict(params=[('module',), ('big', 'res', 'out', 'res_size'), ('int', 'res_size'),
                                    ('big', 'a', 'in', 'a_size'), ('int', 'a_size'), ('big', 'b', 'in', 'b_size'),
                                    ('int', 'b_size')], alias=[('res', 'a'), ('res', 'b')], op='add'),
    'vec_znx_big_sub': dict(params=[('module',), ('big', 'res', 'out', 'res_size'), ('int', 'res_size'),
                                    ('big', 'a', 'in', 'a_size'), ('int', 'a_size'), ('big', 'b', 'in', 'b_size'),
                                    ('int', 'b_size')], alias=[('res', 'a'), ('res', 'b')], op='sub'),
    'vec_znx_big_add_small': dict(params=[('module',), ('big', 'res', 'out', 'res_size'), ('int', 'res_size'),
                                          ('big', 'a', 'in', 'a_size'), ('int', 'a_size'),
                                          ('vec', 'b', 'in', 'b_size', 'b_sl'), ('int', 'b_size'), ('int', 'b_sl')],
                                  alias=[('res', 'a')], op='add'),
    'vec_znx_big_add_small2': dict(params=[('module',), ('big', 'res', 'out', 'res_size'), ('int', 'res_size'),
                                           ('vec', 'a', 'in', 'a_size', 'a_sl'), ('int', 'a_size'), ('int', 'a_sl'),
                                           ('vec', 'b', 'in', 'b_size', 'b_sl'), ('int', 'b_size'), ('int', 'b_sl')],
                                   alias=[], op='add'),
    'vec_znx_big_sub_small_b': dict(params=[('module',), ('big', 'res', 'out', 'res_size'), ('int', 'res_size'),
                                            ('big', 'a', 'in', 'a_size'), ('int', 'a_size'),
                                            ('vec', 'b', 'in', 'b_size', 'b_sl'), ('int', 'b_size'), ('int', 'b_sl')],
                                    alias=[('res', 'a')], op='sub'),
    'vec_znx_big_sub_small_a': dict(params=[('module',), ('big', 'res', 'out', 'res_size'), ('int', 'res_size'),
                                            ('vec', 'a', 'in', 'a_size', 'a_sl'), ('int', 'a_size'), ('int', 'a_sl'),
                                            ('big', 'b', 'in', 'b_size'), ('int', 'b_size')],
                                    alias=[('res', 'b')], op='sub'),
    'vec_znx_big_sub_small2': dict(params=[('module',), ('big', 'res', 'out', 'res_size'), ('int', 'res_size'),
                                           ('vec', 'a', 'in', 'a_size', 'a_sl'), ('int', 'a_size'), ('int', 'a_sl'),
                                           ('vec', 'b', 'in', 'b_size', 'b_sl'), ('int', 'b_size'), ('int', 'b_sl')],
                                   alias=[], op='sub'),
    'vec_znx_big_rotate': dict(params=[('module',), ('k', 'p'), ('big', 'res', 'out', 'res_size'), ('int', 'res_size'),
                                       ('big', 'a', 'in', 'a_size'), ('int', 'a_size')],
                               alias=[('res', 'a')], ranges={'p': [0, 1, 5, -3]}),
    'vec_znx_big_automorphism': dict(params=[('module',), ('k', 'p'), ('big', 'res', 'out', 'res_size'), ('int', 'res_size'),
                                             ('big', 'a', 'in', 'a_size'), ('int', 'a_size')],
                                     alias=[('res', 'a')], ranges={'p': [1, 3, 5, -1]}),
    'vec_znx_big_normalize_base2k': dict(params=[('module',), ('k', 'log2_base2k'), ('vec', 'res', 'out', 'res_size', 'res_sl'),
                                                 ('int', 'res_size'), ('int', 'res_sl'), ('big', 'a', 'in', 'a_size'),
                                                 ('int', 'a_size'),
                                                 ('tmp', 'tmp_space', 'vec_znx_big_normalize_base2k_tmp_bytes', [])],
                                         alias=[('res', 'a')], alias_requires={'res_sl': 'N'}, ranges={'log2_base2k': [19, 62]}),
    'vec_znx_big_range_normalize_base2k': dict(
        params=[('module',), ('k', 'log2_base2k'), ('vec', 'res', 'out', 'res_size', 'res_sl'), ('int', 'res_size'),
                ('int', 'res_sl'), ('bigrange', 'a', 'in', 'a_range_begin', 'a_range_xend', 'a_range_step'),
                ('int', 'a_range_begin'), ('int', 'a_range_xend'), ('int', 'a_range_step'),
                ('tmp', 'tmp_space', 'vec_znx_big_range_normalize_base2k_tmp_bytes', [])],
        alias=[], ranges={'log2_base2k': [19], 'range': [(0, 0, 1), (0, 1, 1), (0, 3, 1), (1, 4, 2), (0, 5, 2), (2, 3, 3), (1, 6, 3)]}),
    'svp_prepare': dict(params=[('module',), ('ppol', 'ppol', 'out'), ('poly', 'pol', 'in')], alias=[]),
    'svp_apply_dft': dict(params=[('module',), ('dft', 'res', 'out', 'res_size'), ('int', 'res_size'), ('ppol', 'ppol', 'in'),
                                  ('vec', 'a', 'in', 'a_size', 'a_sl'), ('int', 'a_size'), ('int', 'a_sl')], alias=[]),
    'znx_small_single_product': dict(params=[('module',), ('poly', 'res', 'out'), ('poly', 'a', 'in'), ('poly', 'b', 'in'),
                                             ('tmp', 'tmp', 'znx_small_single_product_tmp_bytes', [])], alias=[]),
    'vmp_prepare_contiguous': dict(params=[('module',), ('pmat', 'pmat', 'out', 'nrows', 'ncols'),
                                           ('mat', 'mat', 'in', 'nrows', 'ncols'), ('int', 'nrows'), ('int', 'ncols'),
                                           ('tmp', 'tmp_space', 'vmp_prepare_contiguous_tmp_bytes', ['nrows', 'ncols'])],
                                   alias=[], min={'nrows': 1, 'ncols': 1}),
    'vmp_apply_dft': dict(params=[('module',), ('dft', 'res', 'out', 'res_size'), ('int', 'res_size'),
                                  ('vec', 'a', 'in', 'a_size', 'a_sl'), ('int', 'a_size'), ('int', 'a_sl'),
                                  ('pmat', 'pmat', 'in', 'nrows', 'ncols'), ('int', 'nrows'), ('int', 'ncols'),
                                  ('tmp', 'tmp_space', 'vmp_apply_dft_tmp_bytes', ['res_size', 'a_size', 'nrows', 'ncols'])],
                          alias=[], min={'nrows': 1, 'ncols': 1}),
    'vmp_apply_dft_to_dft': dict(params=[('module',), ('dft', 'res', 'out', 'res_size'), ('int', 'res_size'),
                                         ('dft', 'a_dft', 'in', 'a_size'), ('int', 'a_size'),
                                         ('pmat', 'pmat', 'in', 'nrows', 'ncols'), ('int', 'nrows'), ('int', 'ncols'),
                                         ('tmp', 'tmp_space', 'vmp_apply_dft_to_dft_tmp_bytes',
                                          ['res_size', 'a_size', 'nrows', 'ncols'])],
                                 alias=[], min={'nrows': 1, 'ncols': 1}),
}

# pure size functions: no writes at all, result is a function of the shape only
SIZE_FUNCS = ['bytes_of_vec_znx_dft', 'bytes_of_vec_znx_big', 'bytes_of_svp_ppol', 'bytes_of_vmp_pmat',
              'vec_znx_normalize_base2k_tmp_bytes', 'vec_znx_big_normalize_base2k_tmp_bytes',
              'vec_znx_big_range_normalize_base2k_tmp_bytes', 'vec_znx_idft_tmp_bytes', 'znx_small_single_product_tmp_bytes',
              'vmp_prepare_contiguous_tmp_bytes', 'vmp_apply_dft_tmp_bytes', 'vmp_apply_dft_to_dft_tmp_bytes', 'module_get_n']

# the FFT64-only entry points (their slot is empty in an NTT120 module)
NTT120_FUNCS = {'vec_znx_dft', 'vec_znx_idft', 'vec_znx_idft_tmp_a', 'vec_znx_zero', 'vec_znx_copy', 'vec_znx_negate',
                'vec_znx_add', 'vec_znx_sub', 'vec_znx_rotate', 'vec_znx_automorphism', 'vec_znx_normalize_base2k'}
