"""spqa.fpbits — E6: binade-partitioned affine analysis of floating-point bit tricks.

Decides, for *every* input of a declared magnitude window, what a straight-line conversion expression (E4 DAG of one
output lane: fadd with a magic constant, reinterpretation of the bits, masks, shifts, integer offsets, reinterpretation
back) computes.  No input is ever executed: the input domain is partitioned (sign x binade of a double input, i.e.
x = s * M * 2^(e-52) with the 53-bit integer M as the partition variable V; the integer itself for integer inputs) and on
each partition every operation is interpreted in the domain

      value  =  a*V + c + eps ,   eps in [elo, ehi],   value in grid*Z,   value in [lo, hi]        (exact rationals)

 * IEEE-754 double addition / multiplication by a constant / rint: exact when the result is representable (grid and
   magnitude test), otherwise a rounding to nearest-even on the grid of the result's binade: eps grows by half an ulp and
   the range is the image of the range under the (monotone) rounding;
 * bits <-> double reinterpretation needs the binade (the exponent field) to be constant on the partition: the map is then
   affine;  masks, or-ing of disjoint fields, xor with the sign bit / all ones, constant and partition-constant shifts are
   affine or floor operations (eps grows by the dropped fraction);  integer words are kept modulo 2^w ("Z mod 2^w") so that
   two's-complement wrap-around needs no case split; a low mask merely narrows w;  an or with a constant above the mask
   gives `base + (Z mod 2^k)`, which reinterpreted as a double is a value modulo a period (`W + (Y mod P)`): the torus
   reductions;
 * whenever an operation is not uniform on a partition (the range crosses a binade, a period, zero) the partition is bisected
   on V; a partition with a single V is evaluated exactly (every rounding is computed), so the refinement always ends and a
   reported violation names one concrete input.
The verdict for a partition comes from the enclosure (affine part equal to the specified function, eps inside the allowed
error); only if the enclosure is too coarse is the partition bisected further."""
from fractions import Fraction as Fr

from .values import Sym
from .vals import is_int

HALF = Fr(1, 2)
INF_GRID = Fr(2) ** 4000


class NeedSplit(Exception):
    pass


class Unknown(Exception):
    """construct outside the domain: no verdict (analysis incomplete)"""


def pow2(k):
    return Fr(2) ** k


def binade(v):
    """floor(log2 v) for a positive rational"""
    n, d = v.numerator, v.denominator
    e = n.bit_length() - d.bit_length()
    if pow2(e) > v:
        e -= 1
    elif pow2(e + 1) <= v:
        e += 1
    return e


def rne(v, u):
    q = v / u
    n = q.numerator // q.denominator
    r = q - n
    if r > HALF or (r == HALF and n % 2 == 1):
        n += 1
    return n * u


def fl(v, u=1):
    q = Fr(v) / u
    return (q.numerator // q.denominator) * u


def residue_error(v, u):
    """range of (round-to-nearest on the grid u) - value.  For an exact affine value a*V + c (V an integer) the residues
    modulo u are c + j*step (step = the power of two in a): the extreme rounding errors follow from the residues nearest to
    the half-way point instead of the blanket +-u/2"""
    if v.elo != 0 or v.ehi != 0 or v.a == 0:
        return -u / 2, u / 2
    step = gridof(v.a)
    if step >= u:
        r = v.c - fl(v.c, u)
        if r == u / 2:
            return -u / 2, u / 2
        return (-r, -r) if r < u / 2 else (u - r, u - r)
    ph = v.c - fl(v.c, step)                       # residues: ph + j*step, j = 0 .. u/step - 1
    half = u / 2
    lo_r = ph + fl(half - ph, step) if ph <= half else None          # largest residue <= u/2
    j = -fl(-(half - ph), step)                                         # ceil to the step
    hi_r = ph + j if ph + j < u else None                             # smallest residue >= u/2
    dl = -lo_r if lo_r is not None else Fr(0)
    dh = (u - hi_r) if hi_r is not None else Fr(0)
    return min(dl, Fr(0)), max(dh, Fr(0))


def gridof(f):
    """largest power of two dividing the dyadic rational f"""
    f = Fr(f)
    if f == 0:
        return INF_GRID
    n, d = abs(f.numerator), f.denominator
    if d & (d - 1):
        raise Unknown('non-dyadic constant %s' % f)
    tz = (n & -n).bit_length() - 1
    return pow2(tz) / d


def ulp(e):
    return pow2(max(e, -1022) - 52)


class AV:
    __slots__ = ('kind', 'w', 'a', 'c', 'elo', 'ehi', 'lo', 'hi', 'grid', 'base', 'P', 'W', 'dlo', 'dhi')

    def __init__(self, kind, a, c, elo, ehi, lo, hi, grid, w=None, base=None, P=None, W=None, dlo=0, dhi=0):
        self.kind, self.w = kind, w
        self.a, self.c, self.elo, self.ehi = Fr(a), Fr(c), Fr(elo), Fr(ehi)
        self.lo, self.hi, self.grid = Fr(lo), Fr(hi), grid
        self.base = base            # I: word = base + (Z mod 2^w)   (base multiple of 2^w) ; None: word = Z mod 2^w
        self.P, self.W = P, W       # F modular: value = W + (Y mod P) + delta, Y the affine enclosure
        self.dlo, self.dhi = Fr(dlo), Fr(dhi)

    def const(self):
        return self.a == 0 and self.elo == 0 and self.ehi == 0 and self.lo == self.hi

    def __repr__(self):
        return '%s(%s*V+%s eps[%s,%s] in [%s,%s] grid %s%s%s)' % (
            self.kind + (str(self.w) if self.w else ''), self.a, self.c, self.elo, self.ehi, self.lo, self.hi, self.grid,
            ' base %s' % self.base if self.base is not None else '', ' mod %s from %s' % (self.P, self.W) if self.P else '')


def K(kind, c, w=None):
    c = Fr(c)
    return AV(kind, 0, c, 0, 0, c, c, gridof(c), w=w)


class Part:
    """one partition of the input domain"""

    def __init__(self, kind, vlo, vhi, scale=None, desc=''):
        self.kind = kind          # 'f64' : x = scale * V ; 'int' : x = V
        self.vlo, self.vhi = vlo, vhi
        self.scale = scale
        self.desc = desc

    def x_of(self, v):
        return (self.scale * v) if self.kind == 'f64' else Fr(v)

    def split(self):
        mid = (self.vlo + self.vhi) // 2
        return [Part(self.kind, self.vlo, mid, self.scale, self.desc), Part(self.kind, mid + 1, self.vhi, self.scale, self.desc)]

    def show(self):
        if self.vlo == self.vhi:
            x = self.x_of(self.vlo)
            return 'x = %s' % (float(x).hex() if self.kind == 'f64' else int(x))
        a, b = self.x_of(self.vlo), self.x_of(self.vhi)
        return 'x in [%s, %s]' % ((float(a).hex(), float(b).hex()) if self.kind == 'f64' else (int(a), int(b)))


F_OPS = ('fadd', 'fsub', 'fmul', 'fneg', 'rint', 'sitofp', 'fma', 'fdiv', 'uitofp')


class Eval:
    def __init__(self, part, inbits):
        self.p = part
        self.inbits = inbits
        self.memo = {}
        self.single = part.vlo == part.vhi

    # ------------------------------------------------------------------ helpers
    def rng(self, a, c, elo, ehi):
        p = self.p
        x0, x1 = a * p.vlo + c, a * p.vhi + c
        return min(x0, x1) + elo, max(x0, x1) + ehi

    def mk(self, kind, a, c, elo, ehi, grid, w=None, lo=None, hi=None):
        a, c = Fr(a), Fr(c)
        if self.single:
            c = a * self.p.vlo + c
            a = Fr(0)
        l, h = self.rng(a, c, elo, ehi)
        if lo is not None:
            l, h = max(l, lo), min(h, hi)
        return AV(kind, a, c, elo, ehi, l, h, grid, w=w)

    def agrid(self, a, c):
        return min(gridof(a), gridof(c))

    # ------------------------------------------------------------------ rounding of an exact real to double
    def round_F(self, v):
        if v.lo == v.hi:
            x = v.lo
            if x == 0:
                return K('F', 0)
            u = ulp(binade(abs(x)))
            return K('F', rne(x, u))
        if v.elo == 0 and v.ehi == 0 and v.grid is not None and v.grid >= pow2(-1074) and \
                max(abs(v.lo), abs(v.hi)) < pow2(53) * v.grid:
            return v        # every value is a multiple of `grid` with at most 53 significant bits: representable
        if v.lo <= 0 <= v.hi:
            raise NeedSplit()
        neg = v.hi < 0
        lo, hi = (abs(v.hi), abs(v.lo)) if neg else (v.lo, v.hi)
        e = binade(lo)
        if binade(hi) != e:
            raise NeedSplit()
        u = ulp(e)
        if v.elo == 0 and v.ehi == 0 and v.grid is not None and v.grid >= u:
            return v        # representable: every value is a multiple of its ulp inside one binade
        l, h = rne(v.lo, u), rne(v.hi, u)
        if l == h:
            return K('F', l)        # every value of the partition rounds to the same double
        dl, dh = residue_error(v, u)
        return AV('F', v.a, v.c, v.elo + dl, v.ehi + dh, l, h, u)

    # ------------------------------------------------------------------ casts
    def to_I(self, v, w=64):
        if v.kind == 'I':
            return v
        if v.P is not None:
            raise Unknown('bits of a value known only modulo a period')
        if v.lo == v.hi and v.lo == 0:
            return K('I', 0, w)
        if v.lo <= 0 <= v.hi:
            raise NeedSplit()
        neg = v.hi < 0
        lo, hi = (abs(v.hi), abs(v.lo)) if neg else (v.lo, v.hi)
        e = binade(lo)
        if binade(hi) != e:
            raise NeedSplit()
        if e > 1023:
            raise Unknown('overflow to infinity')
        s = -1 if neg else 1
        if e >= -1022:
            u = pow2(e - 52)
            off = (e + 1023 - 1) * pow2(52)      # (E << 52) + (|v|/u - 2^52)
        else:
            u = pow2(-1074)
            off = Fr(0)
        if neg:
            off += pow2(63)
        a, c = s * v.a / u, s * v.c / u + off
        elo, ehi = (v.elo / u, v.ehi / u) if not neg else (-v.ehi / u, -v.elo / u)
        g = (v.grid / u) if v.grid is not None else Fr(1)
        if g < 1:
            raise Unknown('value finer than its ulp')
        r = AV('I', a, c, elo, ehi, lo / u + off, hi / u + off, min(g, gridof(off)), w=64)
        if self.single or r.lo == r.hi:
            r = K('I', r.lo, 64)
        return r

    def canon(self, v, signed=False):
        """the word as a number: Z reduced into [0, 2^w) (or the signed range); needs one period on the partition"""
        assert v.kind == 'I'
        M = pow2(v.w)
        off = M / 2 if signed else 0
        q = fl(v.lo + off, M)
        if fl(v.hi + off, M) != q:
            raise NeedSplit()
        r = AV('I', v.a, v.c - q, v.elo, v.ehi, v.lo - q, v.hi - q, v.grid, w=v.w)
        if v.base is not None:
            if signed:
                raise Unknown('signed reading of a based word')
            r.c += v.base
            r.lo += v.base
            r.hi += v.base
            r.w = 64
        return r

    def to_F(self, v):
        if v.kind == 'F':
            return v
        if v.base is not None:
            k, base = v.w, v.base
            if k > 52:
                raise Unknown('based word wider than the mantissa')
            sign, E, mh = base >> 63, (base >> 52) & 0x7FF, base & ((1 << 52) - 1)
            if sign or E in (0, 0x7FF):
                raise Unknown('based word with sign / special exponent')
            u = pow2(E - 1075)
            W = (pow2(52) + mh) * u
            P = pow2(k) * u
            q = fl(v.lo, pow2(k))
            if fl(v.hi, pow2(k)) == q:
                # one period: plain value
                return AV('F', v.a * u, (v.c - q) * u + W, v.elo * u, v.ehi * u, (v.lo - q) * u + W, (v.hi - q) * u + W,
                          min(v.grid * u, gridof(W)))
            r = AV('F', v.a * u, v.c * u, v.elo * u, v.ehi * u, W, W + P - v.grid * u, min(v.grid * u, gridof(W)), P=P, W=W)
            return r
        c = self.canon(v)
        if c.w != 64:
            raise Unknown('reinterpreting a %d-bit word as a double' % c.w)
        q = fl(c.lo, pow2(52))
        if fl(c.hi, pow2(52)) != q:
            raise NeedSplit()
        q = int(q / pow2(52))
        sign, E = q >> 11, q & 0x7FF
        if E == 0x7FF:
            raise Unknown('infinity / NaN pattern')
        s = -1 if sign else 1
        if E == 0:
            u = pow2(-1074)
            off = -Fr(q) * pow2(52)
        else:
            u = pow2(E - 1075)
            off = pow2(52) - Fr(q) * pow2(52)
        a, cc = s * c.a * u, s * (c.c + off) * u
        elo, ehi = (c.elo * u, c.ehi * u) if s > 0 else (-c.ehi * u, -c.elo * u)
        l, h = (c.lo + off) * u, (c.hi + off) * u
        if s < 0:
            l, h = -h, -l
        return AV('F', a, cc, elo, ehi, l, h, c.grid * u)

    # ------------------------------------------------------------------ evaluation
    def ev(self, n, want):
        key = (n if isinstance(n, Sym) else ('k', type(n).__name__, n), want)
        r = self.memo.get(key)
        if r is None:
            r = self._ev(n, want)
            self.memo[key] = r
        return r

    def _ev(self, n, want):
        if isinstance(n, bool):
            raise Unknown('boolean')
        if isinstance(n, float):
            v = K('F', Fr(n))
            return v if want == 'F' else self.to_I(v)
        if is_int(n):
            if want == 'I':
                return K('I', n, 64)
            return self.to_F(K('I', n, 64))
        if not isinstance(n, Sym):
            raise Unknown('opaque value')
        e = n.e
        op = e[0]
        if op == 'in':
            v = self.input(e)
        elif op in F_OPS:
            v = self.fop(op, e)
        else:
            v = self.iop(op, e)
        if want == 'F' and v.kind == 'I':
            return self.to_F(v)
        if want == 'I' and v.kind == 'F':
            return self.to_I(v)
        return v

    def input(self, e):
        p = self.p
        if p.kind == 'f64':
            if e[3] != 8:
                raise Unknown('partial read of a double input')
            return self.mk('F', p.scale, 0, 0, 0, gridof(p.scale) if p.scale else INF_GRID)
        if e[3] * 8 != self.inbits:
            raise Unknown('input read with another width')
        return self.mk('I', 1, 0, 0, 0, Fr(1), w=self.inbits)

    def fop(self, op, e):
        if op in ('fadd', 'fsub'):
            x, y = self.ev(e[1], 'F'), self.ev(e[2], 'F')
            s = 1 if op == 'fadd' else -1
            if x.P is not None or y.P is not None:
                if y.P is not None and x.const() and op == 'fadd':
                    x, y = y, x
                if x.P is None or not y.const() or y.P is not None:
                    raise Unknown('arithmetic on a value known modulo a period')
                c = s * y.c
                g = min(x.grid, gridof(c))
                lo, hi = x.lo + c, x.hi + c
                m = max(abs(lo), abs(hi))
                r = AV('F', x.a, x.c, x.elo, x.ehi, lo, hi, g, P=x.P, W=x.W + c, dlo=x.dlo, dhi=x.dhi)
                if m > 0 and g < ulp(binade(m)):
                    u = ulp(binade(m))
                    r.dlo -= u / 2
                    r.dhi += u / 2
                    r.grid = None
                return r
            g = None if (x.grid is None or y.grid is None) else min(x.grid, y.grid)
            v = AV('F', x.a + s * y.a, x.c + s * y.c, x.elo + (s * y.elo if s > 0 else -y.ehi), x.ehi + (y.ehi if s > 0 else -y.elo),
                   x.lo + (y.lo if s > 0 else -y.hi), x.hi + (y.hi if s > 0 else -y.lo), g)
            if self.single:
                v = K('F', v.lo) if v.lo == v.hi else v
            else:
                # tighten the range from the affine form
                l, h = self.rng(v.a, v.c, v.elo, v.ehi)
                v.lo, v.hi = max(v.lo, l), min(v.hi, h)
            return self.round_F(v)
        if op == 'fmul':
            x, y = self.ev(e[1], 'F'), self.ev(e[2], 'F')
            if x.const() and not y.const():
                x, y = y, x
            if not y.const():
                raise Unknown('product of two non-constant values')
            if x.P is not None:
                raise Unknown('scaling a value known modulo a period')
            k = y.c
            if k == 0:
                return K('F', 0)
            elo, ehi = (x.elo * k, x.ehi * k) if k > 0 else (x.ehi * k, x.elo * k)
            lo, hi = (x.lo * k, x.hi * k) if k > 0 else (x.hi * k, x.lo * k)
            g = None if x.grid is None else x.grid * gridof(k)
            return self.round_F(AV('F', x.a * k, x.c * k, elo, ehi, lo, hi, g))
        if op == 'fneg':
            x = self.ev(e[1], 'F')
            if x.P is not None:
                raise Unknown('negating a value known modulo a period')
            return AV('F', -x.a, -x.c, -x.ehi, -x.elo, -x.hi, -x.lo, x.grid)
        if op == 'rint':
            x = self.ev(e[1], 'F')
            if x.P is not None:
                raise Unknown('rint of a value known modulo a period')
            if x.grid is not None and x.grid >= 1 and x.elo == 0 and x.ehi == 0:
                return x
            if max(abs(x.lo), abs(x.hi)) >= pow2(52):
                raise NeedSplit() if not self.single else Unknown('rint beyond 2^52 of an inexact value')
            if rne(x.lo, 1) == rne(x.hi, 1):
                return K('F', rne(x.lo, 1))
            return AV('F', x.a, x.c, x.elo - HALF, x.ehi + HALF, rne(x.lo, 1), rne(x.hi, 1), Fr(1))
        if op == 'sitofp':
            x = self.canon(self.ev(e[2], 'I'), signed=True)
            return self.round_F(AV('F', x.a, x.c, x.elo, x.ehi, x.lo, x.hi, x.grid))
        raise Unknown('floating-point operation %s' % op)

    def count(self, n, w):
        """a shift count: constant on the partition"""
        if is_int(n):
            return n
        c = self.canon(self.ev(n, 'I'))
        if c.lo != c.hi:
            raise NeedSplit()
        return int(c.lo)

    def iop(self, op, e):
        if op in ('add', 'sub'):
            w = e[1]
            x, y = self.ev(e[2], 'I'), self.ev(e[3], 'I')
            # a word known modulo 2^k with k < w enters a w-bit addition as the number in [0, 2^k)
            if x.base is not None or x.w < w:
                x = self.canon(x)
            if y.base is not None or y.w < w:
                y = self.canon(y)
            s = 1 if op == 'add' else -1
            r = AV('I', x.a + s * y.a, x.c + s * y.c, x.elo + (y.elo if s > 0 else -y.ehi), x.ehi + (y.ehi if s > 0 else -y.elo),
                   x.lo + (y.lo if s > 0 else -y.hi), x.hi + (y.hi if s > 0 else -y.lo), min(x.grid, y.grid), w=w)
            if not self.single:
                l, h = self.rng(r.a, r.c, r.elo, r.ehi)
                r.lo, r.hi = max(r.lo, l), min(r.hi, h)
            return r
        if op in ('and', 'or', 'xor'):
            w = e[1]
            x, y = e[2], e[3]
            if is_int(x) and not is_int(y):
                x, y = y, x
            xv = self.ev(x, 'I')
            yv = self.ev(y, 'I')
            if not yv.const() and xv.const():
                xv, yv = yv, xv
            if xv.const() and yv.const() and xv.base is None and yv.base is None:
                a, b = int(self.canon(xv).lo), int(self.canon(yv).lo)
                return K('I', {'and': a & b, 'or': a | b, 'xor': a ^ b}[op], w)
            if not yv.const() or yv.base is not None:
                raise Unknown('%s of two non-constant words' % op)
            m = int(self.canon(AV('I', 0, yv.c, 0, 0, yv.lo, yv.hi, yv.grid, w=w)).lo)
            if op == 'and':
                if m == 0:
                    return K('I', 0, w)
                if m & (m + 1) == 0:
                    k = m.bit_length()
                    if xv.base is not None:
                        xv = self.canon(xv)
                    if k >= xv.w:
                        return xv
                    return AV('I', xv.a, xv.c, xv.elo, xv.ehi, xv.lo, xv.hi, xv.grid, w=k)
                # a field of contiguous ones from bit a upward: constant if the bits above a are constant
                a = (m & -m).bit_length() - 1
                c = self.canon(xv)
                q = fl(c.lo, pow2(a))
                if fl(c.hi, pow2(a)) != q:
                    raise NeedSplit()
                return K('I', int(q) & m, w)
            if op == 'or':
                if m == 0:
                    return xv
                k = xv.w
                if xv.base is None and k < w and m % (1 << k) == 0:
                    r = AV('I', xv.a, xv.c, xv.elo, xv.ehi, xv.lo, xv.hi, xv.grid, w=k, base=m)
                    return r
                if xv.base is not None and m % (1 << k) == 0 and (m & xv.base) == 0:
                    return AV('I', xv.a, xv.c, xv.elo, xv.ehi, xv.lo, xv.hi, xv.grid, w=k, base=m | xv.base)
                c = self.canon(xv)
                # or with bits that are known to be clear
                t = (m & -m).bit_length() - 1
                if c.lo >= 0 and c.hi < pow2(t):
                    return AV('I', c.a, c.c + m, c.elo, c.ehi, c.lo + m, c.hi + m, min(c.grid, gridof(m)), w=w)
                raise Unknown('or with overlapping bits')
            # xor
            if xv.base is not None:
                xv = self.canon(xv)
            if m == 0:
                return xv
            ww = xv.w if xv.w < w else w
            if m == (1 << (ww - 1)):
                return AV('I', xv.a, xv.c + m, xv.elo, xv.ehi, xv.lo + m, xv.hi + m, min(xv.grid, gridof(m)), w=ww)
            if m == (1 << ww) - 1 or (m == (1 << w) - 1):
                return AV('I', -xv.a, -xv.c - 1, -xv.ehi, -xv.elo, -xv.hi - 1, -xv.lo - 1, min(xv.grid, Fr(1)), w=w if m == (1 << w) - 1 else ww)
            raise Unknown('xor with the constant %#x' % m)
        if op in ('shl', 'lshr', 'ashr'):
            w = e[1]
            x = self.ev(e[2], 'I')
            n = self.count(e[3], w)
            if op == 'shl':
                if n >= w:
                    return K('I', 0, w)
                if x.base is not None or x.w != w:
                    x = self.canon(x)
                k = pow2(n)
                return AV('I', x.a * k, x.c * k, x.elo * k, x.ehi * k, x.lo * k, x.hi * k, x.grid * k, w=w)
            c = self.canon(x, signed=(op == 'ashr'))
            if n >= w:
                if op == 'lshr':
                    return K('I', 0, w)
                n = w - 1
            k = pow2(n)
            if fl(c.lo, k) == fl(c.hi, k):
                return K('I', fl(c.lo, k) / k, w)
            if c.grid >= k and c.elo == 0 and c.ehi == 0:
                return AV('I', c.a / k, c.c / k, 0, 0, c.lo / k, c.hi / k, c.grid / k, w=w)
            g = min(c.grid, k)
            drop_lo, drop_hi = Fr(0), 1 - g / k          # the dropped fraction frac(Z / k)
            if c.elo == 0 and c.ehi == 0 and c.a != 0:
                step = gridof(c.a)
                if step >= k:
                    drop_lo = drop_hi = (c.c - fl(c.c, k)) / k
                else:
                    ph = c.c - fl(c.c, step)
                    drop_lo, drop_hi = ph / k, (ph + k - step) / k
            return AV('I', c.a / k, c.c / k, c.elo / k - drop_hi, c.ehi / k - drop_lo, fl(c.lo, k) / k, fl(c.hi, k) / k, Fr(1), w=w)
        if op == 'trunc':
            x = self.ev(e[3], 'I')
            if x.base is not None:
                x = self.canon(x)
            return AV('I', x.a, x.c, x.elo, x.ehi, x.lo, x.hi, x.grid, w=min(e[2], x.w))
        if op == 'part' and e[1] == 32:
            x = self.ev(e[3], 'I')
            if e[2] == 0:
                if x.base is not None:
                    x = self.canon(x)
                return AV('I', x.a, x.c, x.elo, x.ehi, x.lo, x.hi, x.grid, w=min(32, x.w))
            c = self.canon(x)
            k = pow2(32)
            if c.lo == c.hi:
                return K('I', fl(c.lo, k) / k, 32)
            raise Unknown('high half of a non-constant word')
        if op == 'catl' and len(e) == 3:
            lo, hi = self.ev(e[1], 'I'), self.ev(e[2], 'I')
            if not hi.const():
                raise Unknown('concatenation with a non-constant high half')
            h = int(self.canon(AV('I', 0, hi.c, 0, 0, hi.lo, hi.hi, hi.grid, w=32)).lo)
            if lo.base is not None:
                lo = self.canon(lo)
            return AV('I', lo.a, lo.c, lo.elo, lo.ehi, lo.lo, lo.hi, lo.grid, w=min(32, lo.w), base=h << 32)
        if op == 'fptosi':
            x = self.ev(e[2], 'F')
            if x.P is not None:
                raise Unknown('fptosi of a value known modulo a period')
            if x.grid is None or x.grid < 1:
                # truncation toward zero of a non-integer: not used by the library
                raise Unknown('fptosi of a non-integer value')
            if max(abs(x.lo), abs(x.hi)) >= pow2(e[1] - 1):
                raise Unknown('fptosi out of range (undefined behaviour)')
            return AV('I', x.a, x.c, x.elo, x.ehi, x.lo, x.hi, x.grid, w=e[1])
        if op in ('zext', 'sext'):
            x = self.canon(self.ev(e[3], 'I'), signed=(op == 'sext'))
            return AV('I', x.a, x.c, x.elo, x.ehi, x.lo, x.hi, x.grid, w=e[2])
        if op == 'icmp':
            # decided when the ranges are ordered on the partition (else the partition is split)
            pred, a, b = e[1], e[-2], e[-1]      # scalar form carries the width, the per-lane vector form does not
            sg = pred.startswith('s')
            x = self.canon(self.ev(a, 'I'), signed=sg)
            y = self.canon(self.ev(b, 'I'), signed=sg)
            def dec(lt, le, gt, ge, eq, ne):
                return {'slt': lt, 'ult': lt, 'sle': le, 'ule': le, 'sgt': gt, 'ugt': gt, 'sge': ge, 'uge': ge, 'eq': eq, 'ne': ne}[pred]
            if x.hi < y.lo:
                r = dec(1, 1, 0, 0, 0, 1)
            elif x.lo > y.hi:
                r = dec(0, 0, 1, 1, 0, 1)
            elif x.lo == x.hi == y.lo == y.hi:
                r = dec(0, 1, 0, 1, 1, 0)
            elif x.hi <= y.lo and pred in ('sle', 'ule', 'sgt', 'ugt'):
                r = dec(0, 1, 0, 0, 0, 0)
            elif x.lo >= y.hi and pred in ('sge', 'uge', 'slt', 'ult'):
                r = dec(0, 0, 0, 1, 0, 0)
            else:
                raise NeedSplit()
            return K('I', r, 1)
        if op == 'sel':
            c = self.canon(self.ev(e[1], 'I'))
            if c.lo != c.hi:
                raise NeedSplit()
            return self.ev(e[2] if int(c.lo) else e[3], 'I')
        raise Unknown('integer operation %s' % op)


# =====================================================================================================================
def f64_partitions(bound, strict=True, min_e=-1074):
    """partitions of { x double : |x| < bound (or <=) }: zero, and sign x binade with the mantissa integer as variable"""
    parts = [Part('f64', 0, 0, Fr(0), 'zero')]
    top = binade(bound)
    for s in (1, -1):
        for e in range(-1023, top + 1):
            if e == -1023:
                sc, lo, hi = pow2(-1074), 1, (1 << 52) - 1
            else:
                sc, lo, hi = pow2(e - 52), 1 << 52, (1 << 53) - 1
            # largest V with sc*V < bound (<=)
            lim = bound / sc
            mx = fl(lim) if (not strict or fl(lim) != lim) else lim - 1
            hi = min(hi, int(mx))
            if hi < lo:
                continue
            parts.append(Part('f64', lo, hi, s * sc, 'binade %d%s' % (e, '' if s > 0 else ' (negative)')))
    return parts


def int_partitions(lo, hi):
    ps = []
    if lo < 0:
        ps.append(Part('int', lo, min(hi, -1), None, 'negative'))
    if hi >= 0:
        ps.append(Part('int', max(lo, 0), hi, None, 'non-negative'))
    return ps


class Result:
    def __init__(self):
        self.partitions = 0
        self.singletons = 0
        self.violation = None
        self.unknown = None


def analyse(root, parts, want, inbits, check, max_parts=400000, probes=None):
    """check(part, av) -> None (proved on the partition) | 'split' | ('viol', text); returns Result.
    probes(part) -> single inputs of the partition worth looking at first when the enclosure is not conclusive on it (a
    violation confined to a sparse set of inputs is found there long before bisection reaches it); a probe is decided like
    any single-input partition, exactly."""
    R = Result()
    stack = list(reversed(parts))
    probed = set()
    while stack:
        p = stack.pop()
        R.partitions += 1
        if R.partitions > max_parts:
            R.unknown = 'partition budget exhausted (%d)' % max_parts
            return R
        single = p.vlo == p.vhi
        try:
            ev = Eval(p, inbits)
            av = ev.ev(root, want)
            v = check(p, av, ev)
        except NeedSplit:
            if single:
                R.unknown = 'not uniform on a single input (%s)' % p.show()
                return R
            v = 'split'
        except Unknown as u:
            R.unknown = '%s on %s' % (u, p.show())
            return R
        if v is None:
            if single:
                R.singletons += 1
            continue
        if v == 'split':
            if single:
                R.unknown = 'enclosure undecided on a single input (%s)' % p.show()
                return R
            if probes is not None and len(probed) < 4000:
                for V in probes(p):
                    if p.vlo <= V <= p.vhi and (p.kind, p.scale, V) not in probed:
                        probed.add((p.kind, p.scale, V))
                        q = Part(p.kind, V, V, p.scale, p.desc)
                        try:
                            evq = Eval(q, inbits)
                            vq = check(q, evq.ev(root, want), evq)
                        except (NeedSplit, Unknown):
                            continue
                        if vq is not None and vq != 'split':
                            R.singletons += 1
                            R.violation = '%s: %s' % (q.show(), vq[1])
                            return R
            stack.extend(reversed(p.split()))
            continue
        if single:
            R.singletons += 1
            R.violation = '%s: %s' % (p.show(), v[1])
            return R
        stack.extend(reversed(p.split()))
    return R


def within(ev, a, c, elo, ehi, L, H):
    """a*V + c + [elo, ehi] inside [L, H] on the partition"""
    l, h = ev.rng(Fr(a), Fr(c), Fr(elo), Fr(ehi))
    return L <= l and h <= H
