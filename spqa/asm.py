"""spqa.asm — front end for the hand-written x86-64 kernels (AT&T syntax, straight-line).

Checks: no branch/call (labels are fall-through markers), the argument registers rdi/rsi/rdx are never written,
every memory operand is disp(%argreg); width from the vector register class; the destination is the last operand.
Yields exact memory models (argument index, R|W, byte offset, byte size) used by the region engine, and the list
of alignment-requiring instructions (vmovapd/vmovaps/vmovdqa on memory)."""
import os
import re

from .build import AnalysisBroken, REPO

ARGREG = {'rdi': 0, 'rsi': 1, 'rdx': 2, 'rcx': 3}
MEM = re.compile(r'(-?(?:0x[0-9a-fA-F]+|\d+))?\(%([a-z0-9]+)(?:,[^)]*)?\)')
WIDTH = {'ymm': 32, 'xmm': 16, 'zmm': 64}


def scan(path):
    fn = None
    model = []
    aligned = []
    problems = []
    labels = []
    # block comments may span lines: blank them, keeping the line numbers
    text = re.sub(r'/\*.*?\*/', lambda m_: '\n' * m_.group(0).count('\n'), open(path).read(), flags=re.S)
    for ln, raw in enumerate(text.split('\n'), 1):
        line = raw.split('#')[0].strip()
        if not line:
            continue
        if line.startswith('.'):
            if line.startswith('.globl'):
                fn = line.split()[1]
            elif line.endswith(':'):
                labels.append(line[:-1])
            continue
        if line.endswith(':'):
            continue
        parts = line.split(None, 1)
        op = parts[0]
        ops = [o.strip() for o in re.split(r',(?![^(]*\))', parts[1])] if len(parts) > 1 else []
        if op == 'ret':
            continue
        if op.startswith('j') or op in ('call', 'loop', 'syscall'):
            problems.append('%s:%d control transfer %s' % (path, ln, op))
            continue
        # destination register must not be an argument register
        if ops:
            d = ops[-1]
            m = re.match(r'%([a-z0-9]+)$', d)
            if m and m.group(1) in ARGREG and op not in ('cmp', 'test'):
                problems.append('%s:%d argument register %s overwritten' % (path, ln, m.group(1)))
        for k, o in enumerate(ops):
            m = MEM.search(o)
            if not m:
                continue
            disp = int(m.group(1), 0) if m.group(1) else 0
            reg = m.group(2)
            if reg not in ARGREG or ',' in o[o.index('('):]:
                problems.append('%s:%d memory operand %s is not disp(%%argreg)' % (path, ln, o))
                continue
            # width: from the vector register operand of the instruction
            w = None
            for o2 in ops:
                mm = re.match(r'%(xmm|ymm|zmm)\d+$', o2)
                if mm:
                    w = WIDTH[mm.group(1)] if w is None else min(w, WIDTH[mm.group(1)]) if op.startswith('vmov') else (w or WIDTH[mm.group(1)])
            if op.startswith('vbroadcastsd'):
                w = 8
            if op.startswith('vinsertf128') or op.startswith('vbroadcastf128'):
                w = 16
            if w is None:
                problems.append('%s:%d cannot size memory operand of %s' % (path, ln, op))
                continue
            kind = 'W' if k == len(ops) - 1 else 'R'
            model.append((ARGREG[reg], kind, disp, w))
            if op in ('vmovapd', 'vmovaps', 'vmovdqa', 'movapd', 'movaps', 'vmovntpd'):
                aligned.append('%s:%d %s' % (path, ln, line))
    return fn, model, aligned, problems


def load_models(lib):
    """name -> model for every assembly unit of the build; raises AnalysisBroken on anything outside the catalogue"""
    out = {}
    info = {}
    for rel in lib.meta['asm']:
        p = os.path.join(REPO, 'spqlios', rel)
        fn, model, aligned, problems = scan(p)
        if problems or fn is None:
            raise AnalysisBroken('assembly unit %s outside the straight-line catalogue: %s' % (rel, problems[:3]))
        out[fn] = model
        info[fn] = {'unit': rel, 'accesses': len(model), 'aligned': aligned}
    return out, info
