"""spqa.equiv — comparison of final buffer contents (E4 normal forms) between two instantiations."""
from . import regions as RG
from .values import Canon, Sym, Vec, fmt
from .vals import Opaque, is_int


def has_unknown(v, seen=None):
    if isinstance(v, Opaque):
        return True
    if isinstance(v, Sym):
        if seen is None:
            seen = set()
        if v in seen:
            return False
        seen.add(v)
        if v.e[0] in ('unk', 'asm'):
            return True
        return any(has_unknown(x, seen) for x in v.e[1:] if isinstance(x, (Sym, Opaque)))
    return False


CONV = {'sitofp', 'uitofp', 'fptosi', 'fptoui', 'rint', 'ceil', 'floor', 'fptrunc'}


def has_conversion(v, seen=None):
    """contains an int<->fp conversion node (magic-constant idioms are compared with rint/sitofp references only numerically)"""
    if isinstance(v, Sym):
        if seen is None:
            seen = set()
        if v in seen:
            return False
        seen.add(v)
        if v.e[0] in CONV:
            return True
        return any(has_conversion(x, seen) for x in v.e[1:] if isinstance(x, Sym))
    return False


def final_state(run, roles=('out', 'inout', 'scratch')):
    """{buffer name: {offset: (size, value)}} of the written buffers"""
    out = {}
    seen = set()
    for b in run.bufs.values():
        if b.ptr is None or id(b.ptr.obj) in seen:
            continue
        if b.role in roles:
            seen.add(id(b.ptr.obj))
            out[b.name] = dict(getattr(b.ptr.obj, 'vstore', {}))
    return out


def split_to_grain(state, grain=8):
    """re-express a store map at a fixed grain when both sides used different element sizes"""
    return state


def compare_states(canon, s1, s2, names=None):
    """returns (n_compared, n_unknown, diffs[list of (buf, off, a, b)])"""
    ncmp = nunk = 0
    diffs = []
    for nm in (names or sorted(set(s1) | set(s2))):
        a, b = s1.get(nm, {}), s2.get(nm, {})
        offs = sorted(set(a) | set(b))
        for o in offs:
            va, vb = a.get(o), b.get(o)
            if va is None or vb is None or va[0] != vb[0]:
                # different granularity or one side did not write: a footprint difference
                diffs.append((nm, o, fmt(va[1]) if va else None, fmt(vb[1]) if vb else None, 'footprint'))
                continue
            if has_unknown(va[1]) or has_unknown(vb[1]):
                nunk += 1
                continue
            ncmp += 1
            try:
                ka, kb = canon.key(va[1]), canon.key(vb[1])
            except OverflowError:
                nunk += 1
                continue
            if ka != kb:
                if has_conversion(va[1]) or has_conversion(vb[1]):
                    ncmp -= 1
                    nunk += 1
                    continue
                diffs.append((nm, o, fmt(va[1])[:300], fmt(vb[1])[:300], 'value'))
    return ncmp, nunk, diffs


def footprint(run):
    """{(buffer, kind): normalized intervals}: bytes written in outputs, bytes read from inputs.
    Reads of an output after the kernel's own writes and the use of scratch are implementation detail (C11 bounds them)."""
    fp = {}
    roles = {}
    for b in run.bufs.values():
        if b.ptr is not None:
            roles.setdefault(id(b.ptr.obj), set()).add(b.role)
    for e in run.events:
        if e.obj is None or e.kind not in ('R', 'W') or e.obj.kind != 'arg':
            continue
        ro = roles.get(id(e.obj), set())
        if 'scratch' in ro:
            continue
        if e.kind == 'R' and not (ro & {'in', 'inout'}):
            continue
        try:
            iv = RG.event_intervals(e)
        except RG.TooBig:
            iv = [RG.hull(e)]
        fp.setdefault((e.obj.name, e.kind), []).extend(iv)
    return {k: RG.normalize(v) for k, v in fp.items()}


_supp = {}


def support(v):
    """set of (object name, byte offset, size) initial-content atoms a value depends on"""
    if not isinstance(v, Sym):
        return frozenset()
    r = _supp.get(v)
    if r is not None:
        return r
    if v.e[0] == 'in':
        r = frozenset([(v.e[1], v.e[2], v.e[3])])
    else:
        acc = set()
        for x in v.e[1:]:
            if isinstance(x, Sym):
                acc |= support(x)
        r = frozenset(acc)
    _supp[v] = r
    return r


def rename(v, mapping, memo=None):
    """substitute buffer names in the initial-content atoms of a value"""
    from .values import sym
    if not isinstance(v, Sym):
        return v
    if memo is None:
        memo = {}
    r = memo.get(v)
    if r is not None:
        return r
    e = v.e
    if e[0] == 'in':
        r = sym('in', mapping.get(e[1], e[1]), *e[2:])
    else:
        r = sym(e[0], *[rename(x, mapping, memo) if isinstance(x, Sym) else x for x in e[1:]])
    memo[v] = r
    return r
