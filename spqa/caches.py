"""spqa.caches — analysis of the memoising *_simple functions (function-local static tables).

For every function that writes a mutable global directly (store, memset/memcpy, or passing a pointer into the
global to a callee that writes through it) it determines
  * the guard: the conditional branch that dominates every such write, whose condition tests a value loaded from
    the same global, and on whose 'slot is empty / key differs' side all writes lie;
  * the key: the function arguments that select the slot (address of the slot) or are compared with a value
    loaded from the global in the guard condition;
  * the constructor dependencies: the function arguments that flow into constructor arguments on which the
    constructed table depends (dataflow.relevant_args)."""
from .dataflow import Deps, relevant_args
from .cg import _strip


def _glob_of(root):
    return (root[1], root[2])


class CacheFn:
    def __init__(self, f):
        self.f = f
        self.globals = {}      # (unit,name) -> global dict
        self.writes = []       # (instr, global key, how)
        self.guards = []       # (branch instr, empty-side successor, cond description)
        self.unguarded = []    # writes not dominated by an 'empty' guard
        self.key_args = set()
        self.ctor_deps = set()
        self.ctor_calls = []
        self.slot_candidates = set()
        self.tls = False
        self.problems = []


def analyse_cache_functions(lib, cg, eff):
    out = []
    memo = {}
    for f in sorted(lib.functions.values(), key=lambda f: f.name):
        S = eff.summ[f.key]
        eff._analyse(f)
        prov = eff._prov
        D = Deps(f, lib, eff)

        def cprov(ref):
            k = ref.get('k')
            if k == 'i':
                return prov.get(ref['v'], set())
            if k == 'g' and not ref.get('fn'):
                g = lib.resolve_global(f.unit, ref['v'])
                if g is not None:
                    return {('glob', g['unit'] if g['internal'] else None, g['name'], 0)}
                return set()
            if k == 'ce':
                o = set()
                for x in ref['ops']:
                    o |= cprov(x)
                return o
            return set()

        def mutable_globs(roots):
            res = set()
            for r in roots:
                if r[0] == 'glob' and r[3] == 0:
                    g = lib.globals.get((r[1], r[2]))
                    if g is not None and not g['const']:
                        res.add((r[1], r[2]))
            return res

        C = CacheFn(f)
        err = eff._error_blocks(f)
        for b in f.blocks:
            if not b.reachable:
                continue
            for i in b.instrs:
                if i.op == 'store':
                    for g in mutable_globs(cprov(i.ops[1])):
                        C.writes.append((i, g, 'store'))
                elif i.op == 'call':
                    c = i.get('callee') or ''
                    if c.startswith('llvm.memset') or c.startswith('llvm.memcpy') or c.startswith('llvm.memmove'):
                        for g in mutable_globs(cprov(i.ops[0])):
                            C.writes.append((i, g, c.split('.')[1]))
                        continue
                    targets = []
                    for (ci, ts, ext, key) in cg.calls.get(f.key, []):
                        if ci.id == i.id:
                            targets = ts
                            break
                    for k, a in enumerate(i.ops):
                        gs = mutable_globs(cprov(a))
                        if not gs:
                            continue
                        for t in targets:
                            T = eff.summ[t.key]
                            if ('arg', k, 0) in T.writes or ('arg', k, 1) in T.writes:
                                for g in gs:
                                    C.writes.append((i, g, 'call ' + t.name))
                                if (i, t) not in C.ctor_calls:
                                    C.ctor_calls.append((i, t))
        if not C.writes:
            continue
        for (i, g, how) in C.writes:
            C.globals[g] = lib.globals[g]
        C.tls = all(g['tls'] for g in C.globals.values())
        # constructor calls whose *result* is stored into the global (pointer caches)
        for (i, g, how) in C.writes:
            if how == 'store':
                v = _strip(i.ops[0])
                if v.get('k') == 'i':
                    vi = f.instrs[v['v']]
                    while vi.op == 'bitcast' and vi.ops[0].get('k') == 'i':
                        vi = f.instrs[vi.ops[0]['v']]
                    if vi.op == 'call' and vi.get('callee'):
                        t = lib.resolve(f.unit, vi['callee'])
                        if t is not None and (vi, t) not in C.ctor_calls:
                            C.ctor_calls.append((vi, t))
        # guards: conditional branches whose condition depends on a load from one of the globals
        gkeys = set(C.globals)

        def loads_from_cache(ref, seen=None):
            """loads (instr) from the cache globals feeding `ref` through icmp/fcmp/select/and/or/xor/casts"""
            if seen is None:
                seen = set()
            ref = _strip(ref)
            if ref.get('k') != 'i' or ref['v'] in seen:
                return []
            seen.add(ref['v'])
            i = f.instrs[ref['v']]
            if i.op == 'load':
                if mutable_globs(cprov(i.ops[0])) & gkeys:
                    return [i]
                return []
            if i.op in ('icmp', 'fcmp', 'select', 'and', 'or', 'xor', 'zext', 'sext', 'trunc', 'bitcast', 'uitofp', 'sitofp',
                        'fpext', 'ptrtoint', 'phi'):
                res = []
                ops = [v for v, _ in i['incoming']] if i.op == 'phi' else i.ops
                for o in ops:
                    res += loads_from_cache(o, seen)
                return res
            return []

        def cmp_key_args(ref, seen=None):
            """args compared against a cache load inside the guard condition"""
            if seen is None:
                seen = set()
            ref = _strip(ref)
            if ref.get('k') != 'i' or ref['v'] in seen:
                return set()
            seen.add(ref['v'])
            i = f.instrs[ref['v']]
            res = set()
            if i.op in ('icmp', 'fcmp'):
                l, r = i.ops
                if loads_from_cache(l) and not loads_from_cache(r):
                    res |= {x for x in D.of(r) if x != 'mem'}
                elif loads_from_cache(r) and not loads_from_cache(l):
                    res |= {x for x in D.of(l) if x != 'mem'}
                return res
            if i.op in ('select', 'and', 'or', 'xor', 'zext', 'phi'):
                ops = [v for v, _ in i['incoming']] if i.op == 'phi' else i.ops
                for o in ops:
                    res |= cmp_key_args(o, seen)
            return res

        # region of blocks that inevitably perform a cache write; every edge entering it must leave a guard branch
        wblocks = {i.block.id for (i, g, how) in C.writes}
        inev = set(wblocks)
        changed = True
        while changed:
            changed = False
            for b in f.blocks:
                if b.id in inev or b.id in err or not b.reachable:
                    continue
                live = [s for s in b.succs if s not in err]
                if live and all(s in inev for s in live):
                    inev.add(b.id)
                    changed = True
        if 0 in inev:
            for (i, g, how) in C.writes:
                C.unguarded.append((i, g, how + ' (written on every path: no guard)'))
        else:
            for b in f.blocks:
                if b.id in inev or not b.reachable:
                    continue
                for s_ in b.succs:
                    if s_ not in inev:
                        continue
                    t = b.term
                    if t.op == 'br' and len(t.ops) == 1 and loads_from_cache(t.ops[0]):
                        C.guards.append((t, s_, t.loc))
                        C.key_args |= cmp_key_args(t.ops[0])
                    else:
                        for (i, g, how) in C.writes:
                            if i.block.id == s_ or f.dominates(s_, i.block.id):
                                C.unguarded.append((i, g, how + ' (entered from %s without testing the cache)' % t.loc))
        # short-circuit guards (`same = f && a == last_a && b == last_b; if (!same) refresh`): a comparison of an argument
        # with a cache load in an earlier block belongs to the key when its "different" outcome leads to the write region
        # whatever else happens (following unconditional edges and branches on a phi whose value is a constant on that path)
        def leads_to_write(pred_block, blk, depth=0):
            if blk in inev:
                return True
            if depth > 8 or blk in err:
                return False
            b = f.blocks[blk] if isinstance(f.blocks, list) else [x for x in f.blocks if x.id == blk][0]
            t = b.term
            if t.op == 'br' and len(t.ops) == 0:
                return leads_to_write(blk, t['then'], depth + 1)
            if t.op == 'br' and len(t.ops) == 1:
                c = _strip(t.ops[0])
                if c.get('k') == 'i':
                    ci = f.instrs[c['v']]
                    if ci.op == 'phi' and ci.block.id == blk:
                        for v, pb in ci['incoming']:
                            if pb == pred_block and v.get('k') == 'c':
                                nxt = t['then'] if str(v.get('v')) not in ('0', 'false') else t['else']
                                return leads_to_write(blk, nxt, depth + 1)
            return False

        if 0 not in inev:
            for b in f.blocks:
                if b.id in inev or b.id in err or not b.reachable:
                    continue
                t = b.term
                if not (t.op == 'br' and len(t.ops) == 1):
                    continue
                def junct(ref, kind):
                    """comparisons of an AND-tree (kind 'and': and / select(x, y, false)) or OR-tree (kind 'or')"""
                    r = _strip(ref)
                    if r.get('k') != 'i':
                        return None
                    i_ = f.instrs[r['v']]
                    if i_.op in ('icmp', 'fcmp'):
                        return [(i_, ref)]
                    parts = None
                    if i_.op == kind:
                        parts = [i_.ops[0], i_.ops[1]]
                    elif i_.op == 'select':
                        k3 = _strip(i_.ops[2 if kind == 'and' else 1])
                        want = ('0', 'false') if kind == 'and' else ('1', 'true', '-1')
                        if k3.get('k') == 'c' and str(k3.get('v')) in want:
                            parts = [i_.ops[0], i_.ops[1 if kind == 'and' else 2]]
                    if parts is None:
                        return None
                    out_ = []
                    for p_ in parts:
                        j_ = junct(p_, kind)
                        if j_ is None:
                            return None
                        out_ += j_
                    return out_

                for kind, preds, edge in (('and', ('eq', 'oeq', 'ueq'), t['else']), ('or', ('ne', 'one', 'une'), t['then'])):
                    js = junct(t.ops[0], kind)
                    if not js:
                        continue
                    for ci, ref in js:
                        if ci['pred'] in preds and loads_from_cache(ref) and leads_to_write(b.id, edge):
                            C.key_args |= cmp_key_args(ref)
        # slot address key: args flowing into the address of guarded loads
        for t, side, _ in C.guards:
            for ld in loads_from_cache(t.ops[0]):
                C.key_args |= {x for x in D.of(ld.ops[0]) if x != 'mem'}
        # guard polarity for shared (non thread-local) caches: a plain empty-slot test, writes on the empty side
        for t, side, _ in C.guards:
            if C.tls:
                continue
            c = _strip(t.ops[0])
            pol = None
            if c.get('k') == 'i':
                ci = f.instrs[c['v']]
                if ci.op == 'icmp' and ci['pred'] in ('eq', 'ne'):
                    z = [o for o in ci.ops if o.get('k') == 'n' or (o.get('k') == 'c' and o['v'] == '0')]
                    if z:
                        empty_side = t['then'] if ci['pred'] == 'eq' else t['else']
                        pol = (empty_side == side)
            if pol is False:
                C.problems.append('cache written on the slot-is-full side of the guard at %s' % t.loc)
            if pol is None:
                C.problems.append('guard at %s is not a plain empty-slot test' % t.loc)
        # constructor dependencies
        for (ci, t) in C.ctor_calls:
            rel = relevant_args(lib, cg, eff, t, memo)
            for k in rel:
                if k < len(ci.ops):
                    C.ctor_deps |= {x for x in D.of(ci.ops[k]) if x != 'mem'}
            # what ends up in the table's function slot
            for key, fns in cg.slot_stores.items():
                for (sf, si) in cg.slot_store_sites[key]:
                    if sf.key == t.key or sf.key in {x.key for x in cg.reachable([t])}:
                        C.slot_candidates |= fns
        out.append(C)
    return out
