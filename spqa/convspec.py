"""spqa.convspec — contracts of the conversion kernels (C14) decided by E6 (fpbits) on the expressions of E4.

For every conversion, configuration (constructor arguments: dimension m on both sides of the vector threshold, divisor
2^j, bound / overhead) and CPU path the library's own constructor is instantiated, the selected kernel is evaluated
symbolically (E4) and each distinct output-lane expression is analysed over the whole input window of the contract."""
from fractions import Fraction as Fr

from .equiv import final_state, support
from .fpbits import (HALF, Eval, NeedSplit, Unknown, analyse, f64_partitions, fl, int_partitions, pow2, within)
from .kernels import KERNELS, entry
from .values import Sym, sym
from .vals import is_int

M16 = lambda s: 16 * s['m']   # noqa


def specs():
    """conversion -> (contract entry, input buffer, input kind)"""
    S = {}
    S['reim_from_znx64'] = (entry([('t', 'new_reim_from_znx64_precomp', [lambda s: s['m'], lambda s: s['b']]),
                                   ('b', 'r', 'out', M16), ('b', 'a', 'in', M16)], [], fn='reim_from_znx64'), 'a', 'i64')
    S['reim_to_znx64'] = (entry([('t', 'new_reim_to_znx64_precomp', [lambda s: s['m'], lambda s: float(s['d']), lambda s: s['b']]),
                                 ('b', 'r', 'out', M16), ('b', 'a', 'in', M16)], [], fn='reim_to_znx64'), 'a', 'f64')
    S['reim_to_tnx'] = (entry([('t', 'new_reim_to_tnx_precomp', [lambda s: s['m'], lambda s: float(s['d']), lambda s: s['ov']]),
                               ('b', 'r', 'out', M16), ('b', 'x', 'in', M16)], [], fn='reim_to_tnx'), 'x', 'f64')
    S['cplx_from_znx32'] = (entry([('t', 'new_cplx_from_znx32_precomp', [lambda s: s['m']]), ('b', 'r', 'out', M16),
                                   ('b', 'a', 'in', lambda s: 8 * s['m'])], [], fn='cplx_from_znx32'), 'a', 'i32')
    S['cplx_from_tnx32'] = (entry([('t', 'new_cplx_from_tnx32_precomp', [lambda s: s['m']]), ('b', 'r', 'out', M16),
                                   ('b', 'a', 'in', lambda s: 8 * s['m'])], [], fn='cplx_from_tnx32'), 'a', 'i32')
    S['cplx_to_tnx32'] = (entry([('t', 'new_cplx_to_tnx32_precomp', [lambda s: s['m'], lambda s: float(s['d']), lambda s: s['ov']]),
                                 ('b', 'r', 'out', lambda s: 8 * s['m']), ('b', 'a', 'in', M16)], [], fn='cplx_to_tnx32'), 'a', 'f64')
    return S


# ---------------------------------------------------------------------------------------------------------------------
def push_half(x, j):
    """the j-th 32-bit half of a 64-bit expression, pushed through bitwise operations and shifts by 32"""
    if is_int(x):
        return (x >> (32 * j)) & 0xffffffff
    if not isinstance(x, Sym):
        return sym('part', 32, j, x)
    e = x.e
    if e[0] in ('and', 'or', 'xor') and e[1] == 64:
        a, b = push_half(e[2], j), push_half(e[3], j)
        if e[0] == 'and' and (a == 0 or b == 0):
            return 0
        if e[0] == 'and' and (a == 0xffffffff or b == 0xffffffff):
            return b if a == 0xffffffff else a
        if e[0] in ('or', 'xor') and (a == 0 or b == 0):
            return b if a == 0 else a
        return sym(e[0], 32, a, b)
    if e[0] == 'catl' and len(e) == 3:
        h = e[1 + j]                      # a 64-bit word assembled from two 32-bit halves
        return h if is_int(h) or not (isinstance(h, Sym) and h.e[0] == 'part' and h.e[1] == 32) else push_half(h.e[3], h.e[2])
    if e[0] == 'shl' and e[1] == 64 and e[3] == 32:
        return 0 if j == 0 else push_half(e[2], 0)
    if e[0] == 'lshr' and e[1] == 64 and e[3] == 32:
        return push_half(e[2], 1) if j == 0 else 0
    return sym('part', 32, j, x)


def normalise(v):
    """remove half-selections of two-input words; rename the single input atom to X[0]"""
    memo = {}

    def go(x):
        if not isinstance(x, Sym):
            return x
        r = memo.get(x)
        if r is not None:
            return r
        e = x.e
        if e[0] == 'part' and e[1] == 32 and isinstance(e[3], Sym):
            h = push_half(e[3], e[2])
            r = go(h) if not (isinstance(h, Sym) and h.e[0] == 'part' and h.e[3] is e[3]) else sym('part', 32, e[2], go(e[3]))
        elif e[0] == 'in':
            r = sym('in', 'X', 0, e[3])
        else:
            r = sym(e[0], *[go(a) if isinstance(a, Sym) else a for a in e[1:]])
        memo[x] = r
        return r
    return go(v)


# ---------------------------------------------------------------------------------------------------------------------
def frac_centered(v, m=1):
    """v - m*round(v/m)"""
    q = Fr(v) / m
    n = fl(q + HALF)
    return (q - n) * m


def chk_to_int(d, bits=64):
    def check(p, av, ev):
        s = ev.canon(av, signed=True)
        t = (p.scale or Fr(0)) / d
        if within(ev, s.a - t, s.c, s.elo, s.ehi, -HALF, HALF):
            return None
        if p.vlo == p.vhi:
            return ('viol', 'returns %d, x/d = %s (distance %s > 1/2)' % (int(s.lo), float(t * p.vlo).hex(),
                                                                           float(abs(s.lo - t * p.vlo))))
        return 'split'
    return check


def probes_half_integers(d, scale_out=1):
    """single inputs next to the points where x*scale_out/d crosses a half-integer (the candidates for a wrong rounding): for the
    first, a middle and the last half-integer of the partition, the neighbouring representable inputs on both sides at several
    distances"""
    def probes(p):
        if p.kind != 'f64' or not p.scale:
            return []
        t = abs(p.scale) * scale_out / d            # |x*scale_out/d| = t * V
        lo, hi = t * p.vlo, t * p.vhi
        ks = sorted({fl(lo), fl((lo + hi) / 2), fl(hi) - 1, fl(hi)})
        out = []
        for k in ks:
            h = (Fr(k) + HALF) / t                  # V at which the half-integer is crossed
            base = int(fl(h))
            for dv in (0, 1, -1, 2, 3, 16, 1 << 10, 1 << 20, 1 << 27, 1 << 28, 1 << 29):
                out += [base + dv, base - dv + 1]
        return out
    return probes


def chk_exact(k):
    def check(p, av, ev):
        if av.P is not None:
            return ('viol', 'value known only modulo %s' % av.P) if p.vlo == p.vhi else 'split'
        if av.elo == 0 and av.ehi == 0 and within(ev, av.a - k, av.c, 0, 0, 0, 0):
            return None
        if p.vlo == p.vhi:
            return ('viol', 'returns %s, expected %s' % (float(av.lo).hex(), float(k * p.vlo).hex()))
        return 'split'
    return check


def near_multiple(ev, a, c, elo, ehi, M, tol):
    """a*V + c + [elo,ehi] stays within tol of one multiple of M on the partition"""
    l, h = ev.rng(Fr(a), Fr(c), Fr(elo), Fr(ehi))
    n = fl(l / M + HALF) * M
    return n - tol <= l and h <= n + tol


def chk_torus32(d):
    def check(p, av, ev):
        if av.base is not None:
            av = ev.canon(av)
        t = (p.scale or Fr(0)) * pow2(32) / d
        if av.w > 32:
            return ('viol', 'stored word wider than 32 bits') if p.vlo == p.vhi else 'split'
        M = pow2(32)
        if near_multiple(ev, av.a - t, av.c, av.elo, av.ehi, M, HALF):
            return None
        if p.vlo == p.vhi:
            r = frac_centered(av.lo - t * p.vlo, M)
            return ('viol', 'returns %d mod 2^32, x*2^32/d = %s (distance %s > 1/2 on the torus)' % (
                int(av.lo % M), float(t * p.vlo), float(abs(r))))
        return 'split'
    return check


def chk_torus(d, tol):
    def check(p, av, ev):
        t = (p.scale or Fr(0)) / d
        lo, hi = av.lo + av.dlo, av.hi + av.dhi
        inwin = (-HALF - tol <= lo) and (hi <= HALF + tol)
        W = av.W if av.P is not None else 0
        ok = (av.P is None or av.P == 1) and near_multiple(ev, av.a - t, av.c + W, av.elo + av.dlo, av.ehi + av.dhi, 1, tol)
        if ok and inwin:
            return None
        if p.vlo == p.vhi:
            if av.P is not None:
                return ('viol', 'not resolved on a single input')
            r = frac_centered(av.lo - t * p.vlo, 1)
            return ('viol', 'returns %s, x/d = %s: %s' % (float(av.lo), float(t * p.vlo).hex(),
                                                          'distance %s on the torus exceeds %s' % (float(abs(r)), float(tol))
                                                          if abs(r) > tol else 'outside [-1/2, 1/2]'))
        return 'split'
    return check


# ---------------------------------------------------------------------------------------------------------------------
def configurations(tier):
    """(conversion, shape, input window description, partitions, want, inbits, check, contract text)"""
    out = []
    ms = [2, 8] if tier == 'quick' else [1, 2, 4, 8, 16, 64]
    ds = [Fr(1), Fr(8), Fr(1, 4)] if tier == 'quick' else [Fr(1), Fr(8), Fr(1, 4), pow2(20), pow2(-9)]
    for m in ms:
        for b in ((50,) if tier == 'quick' else (0, 20, 50)):
            W = pow2(b)
            out.append(('reim_from_znx64', dict(m=m, b=b), '|x| < 2^%d' % b, int_partitions(int(-W) + 1, int(W) - 1), 'F', 64,
                        chk_exact(Fr(1)), 'the double equals the integer'))
        for d in ds:
            for b in ((50, 51, 63) if tier == 'quick' else (1, 30, 50, 51, 52, 63, 64)):
                wb = min(b, 52)
                out.append(('reim_to_znx64', dict(m=m, d=d, b=b), '|x/d| < 2^%d' % wb, f64_partitions(d * pow2(wb)), 'I', 64,
                            chk_to_int(d), 'an integer within 1/2 of x/d'))
            for ov in ((0, 18, 48) if tier == 'quick' else (0, 1, 17, 18, 19, 30, 47, 48)):
                tol = pow2(ov - 50)
                out.append(('reim_to_tnx', dict(m=m, d=d, ov=ov), '|x/d| <= 2^%d' % ov, f64_partitions(d * pow2(ov), strict=False), 'F',
                            64, chk_torus(d, tol), 'x/d modulo 1 in [-1/2,1/2] within 2^%d' % (ov - 50)))
            for ov in ((18,) if tier == 'quick' else (0, 10, 18)):
                out.append(('cplx_to_tnx32', dict(m=m, d=d, ov=ov), '|x/d| < 2^18', f64_partitions(d * pow2(18)), 'I', 64,
                            chk_torus32(d), 'round(x*2^32/d) modulo 2^32'))
        out.append(('cplx_from_znx32', dict(m=m), 'every int32', int_partitions(-(1 << 31), (1 << 31) - 1), 'F', 32,
                    chk_exact(Fr(1)), 'the double equals the integer'))
        out.append(('cplx_from_tnx32', dict(m=m), 'every int32', int_partitions(-(1 << 31), (1 << 31) - 1), 'F', 32,
                    chk_exact(pow2(-32)), 'the double equals the integer times 2^-32'))
    return out


def lanes_of(run, outbuf, inbuf):
    """distinct normalised output-lane expressions of a run: {expr: first output offset}; error string if a lane is odd"""
    st = final_state(run, ('out',)).get(outbuf, {})
    seen = {}
    for off in sorted(st):
        size, v = st[off]
        if not isinstance(v, Sym):
            return None, 'output +%d holds the constant %r' % (off, v)
        nv = normalise(v)
        sup = {(b, o) for (b, o, s) in support(nv)}
        if len(sup) != 1:
            return None, 'output +%d depends on %d input words' % (off, len(sup))
        seen.setdefault(nv, off)
    return seen, None
