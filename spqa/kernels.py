"""spqa.kernels — contract of the exported kernel layer (DESIGN Appendix A, last paragraph) and its sweep.

Every entry: name -> dict(args=[...], dom=[shape dicts]) where an argument is
  ('i', expr)                       integer computed from the shape
  ('f', expr)                       double computed from the shape
  ('b', name, role, bytes_expr)     caller buffer with exactly that many bytes (the declared extent)
  ('bx', name, role, bytes_expr, declared_expr)   buffer whose declared (touchable) part is a list of intervals
  ('t', ctor, [arg exprs])          table built by the library constructor `ctor`
  ('null',)                         NULL pointer
Expressions are Python callables of the shape dict.  Domains list the documented preconditions (m >= 4 for reim4
conversions, blk < m/4, ell <= MAX_ELL ...)."""
import itertools

from . import regions as RG
from .apicheck import Buf, Run, check_run
from .build import AnalysisBroken
from .harness import Ctx
from .machine import Runaway
from .trusted import TRUSTED
from .vals import Aborted, NeedEnum, Ptr, Unsupported, is_int

M64 = (1 << 64) - 1


def S(**kw):
    return kw


def pows(lo, hi):
    out = []
    x = lo
    while x <= hi:
        out.append(x)
        x *= 2
    return out


def dom_nn(tier, lo=1):
    return [S(nn=n) for n in (pows(lo, 64) if tier == 'quick' else pows(lo, 1024) + [65536])]


def dom_nn_p(tier):
    out = []
    for n in (pows(1, 16) if tier == 'quick' else pows(1, 64)):
        for p in ([0, 1, 3, n, n + 1, 2 * n - 1, -1, -3, 5 * n + 2] if n > 1 else [0, 1, 3]):
            out.append(S(nn=n, p=p))
    return out


def dom_nn_podd(tier):
    out = []
    for n in (pows(1, 16) if tier == 'quick' else pows(1, 64)):
        for p in sorted({1, 3, 5, 2 * n - 1, n + 1, n - 1 if (n - 1) % 2 else n + 3, -1, -3, 7}):
            if p % 2:
                out.append(S(nn=n, p=p))
    return out


def dom_m(tier, lo=1, hi_q=256, hi_t=65536):
    return [S(m=m) for m in pows(lo, hi_q if tier == 'quick' else hi_t)]


def dom_blk(tier, lo=4):
    out = []
    for m in pows(lo, 32 if tier == 'quick' else 256):
        for blk in sorted({0, m // 4 - 1, (m // 4) // 2}):
            for nrows in (0, 1, 3):
                out.append(S(m=m, blk=blk, nrows=nrows, sl=2 * m + 8))
    return out


def dom_rows(tier):
    return [S(nrows=r) for r in ([0, 1, 2, 5] if tier == 'quick' else [0, 1, 2, 3, 5, 17, 64])]


def dom_ell(tier):
    return [S(ell=e) for e in ([0, 1, 2, 3, 8, 100] if tier == 'quick' else [0, 1, 2, 3, 4, 7, 8, 100, 1000, 10000])]


def dom_conv(tier):
    out = []
    for sa in (0, 1, 3):
        for sb in (0, 1, 2, 4):
            for k in (0, 1, 2, 4, 6, 9):
                out.append(S(k=k, sizea=sa, sizeb=sb, dest_size=3, dest_offset=k))
    return out


def N8(s):
    return 8 * s['nn']


def M16(s):
    return 16 * s['m']


def entry(args, dom, **kw):
    d = dict(args=args, dom=dom)
    d.update(kw)
    return d


def elementwise3(ref_only=False):
    return [('i', lambda s: s['nn']), ('b', 'res', 'out', N8), ('b', 'a', 'in', N8), ('b', 'b', 'in', N8)]


def elementwise2():
    return [('i', lambda s: s['nn']), ('b', 'res', 'out', N8), ('b', 'a', 'in', N8)]


def rot(inplace):
    if inplace:
        return [('i', lambda s: s['nn']), ('i', lambda s: s['p']), ('b', 'res', 'inout', N8)]
    return [('i', lambda s: s['nn']), ('i', lambda s: s['p']), ('b', 'res', 'out', N8), ('b', 'in', 'in', N8)]


def fftvec3(ctor, role_r='out'):
    return [('t', ctor, [lambda s: s['m']]), ('b', 'r', role_r, M16), ('b', 'a', 'in', M16), ('b', 'b', 'in', M16)]


def KERNELS(tier):
    K = {}
    # ---- coefficient kernels ------------------------------------------------------------------------------
    for n in ('znx_add_i64_ref', 'znx_add_i64_avx', 'znx_sub_i64_ref', 'znx_sub_i64_avx'):
        K[n] = entry(elementwise3(), dom_nn(tier), alias=[('res', 'a'), ('res', 'b')])
    for n in ('znx_negate_i64_ref', 'znx_negate_i64_avx', 'znx_copy_i64_ref'):
        K[n] = entry(elementwise2(), dom_nn(tier), alias=[('res', 'a')])
    K['znx_zero_i64_ref'] = entry([('i', lambda s: s['nn']), ('b', 'res', 'out', N8)], dom_nn(tier))
    for n in ('znx_rotate_i64', 'rnx_rotate_f64', 'znx_mul_xp_minus_one', 'rnx_mul_xp_minus_one'):
        K[n] = entry(rot(False), dom_nn_p(tier))
    for n in ('znx_rotate_inplace_i64', 'rnx_rotate_inplace_f64', 'rnx_mul_xp_minus_one_inplace'):
        K[n] = entry(rot(True), dom_nn_p(tier))
    for n in ('znx_automorphism_i64', 'rnx_automorphism_f64'):
        K[n] = entry(rot(False), dom_nn_podd(tier))
    for n in ('znx_automorphism_inplace_i64', 'rnx_automorphism_inplace_f64'):
        K[n] = entry(rot(True), dom_nn_podd(tier))
    for n in ('rnx_divide_by_m_ref', 'rnx_divide_by_m_avx'):
        K[n] = entry([('i', lambda s: s['nn']), ('f', lambda s: 4.0), ('b', 'res', 'out', N8), ('b', 'a', 'in', N8)],
                     dom_nn(tier, 4 if n.endswith('avx') else 1), alias=[('res', 'a')])
    # znx_normalize: the eight argument shapes
    for (o, co, ci) in itertools.product((0, 1), (0, 1), (0, 1)):
        if not o and not co:
            continue  # precondition assert(carry_out) when out is absent: nothing to compute
        a = [('i', lambda s: s['nn']), ('i', lambda s: 19)]
        a.append(('b', 'out', 'out', N8) if o else ('null',))
        a.append(('b', 'carry_out', 'out', N8) if co else ('null',))
        a.append(('b', 'in', 'in', N8))
        a.append(('b', 'carry_in', 'in', N8) if ci else ('null',))
        K['znx_normalize#out%d_cout%d_cin%d' % (o, co, ci)] = entry(a, dom_nn(tier), fn='znx_normalize')
    # ---- reim -----------------------------------------------------------------------------------------------
    K['reim_fft'] = entry([('t', 'new_reim_fft_precomp', [lambda s: s['m'], lambda s: 0]), ('b', 'data', 'inout', M16)],
                          dom_m(tier))
    K['reim_ifft'] = entry([('t', 'new_reim_ifft_precomp', [lambda s: s['m'], lambda s: 0]), ('b', 'data', 'inout', M16)],
                           dom_m(tier))
    K['reim_fftvec_mul'] = entry(fftvec3('new_reim_fftvec_mul_precomp'), dom_m(tier), alias=[('r', 'a'), ('r', 'b')])
    K['reim_fftvec_addmul'] = entry(fftvec3('new_reim_fftvec_addmul_precomp', 'inout'), dom_m(tier))
    K['reim_from_znx64'] = entry([('t', 'new_reim_from_znx64_precomp', [lambda s: s['m'], lambda s: s.get('b', 50)]),
                                  ('b', 'r', 'out', M16), ('b', 'a', 'in', M16)],
                                 [dict(d, b=b) for d in dom_m(tier) for b in (0, 50)])
    K['reim_to_znx64'] = entry([('t', 'new_reim_to_znx64_precomp', [lambda s: s['m'], lambda s: float(s['m']), lambda s: s['b']]),
                                ('b', 'r', 'out', M16), ('b', 'a', 'in', M16)],
                               [dict(d, b=b) for d in dom_m(tier) for b in (0, 50, 51, 63, 64)], alias=[('r', 'a')])
    K['reim_to_tnx'] = entry([('t', 'new_reim_to_tnx_precomp', [lambda s: s['m'], lambda s: 2.0, lambda s: s['ov']]),
                              ('b', 'r', 'out', M16), ('b', 'x', 'in', M16)],
                             [dict(d, ov=ov) for d in dom_m(tier) for ov in (0, 18, 48)], alias=[('r', 'x')])
    for leaf, nb, omb in (('reim_fft16_ref', 128, None), ('reim_ifft16_ref', 128, None), ('reim_fft8_ref', 64, None),
                          ('reim_ifft8_ref', 64, None), ('reim_fft4_ref', 32, None), ('reim_ifft4_ref', 32, None),
                          ('reim_fft2_ref', 16, None), ('reim_ifft2_ref', 16, None), ('reim_fft8_avx_fma', 64, None),
                          ('reim_ifft8_avx_fma', 64, None), ('reim_fft4_avx_fma', 32, None), ('reim_ifft4_avx_fma', 32, None)):
        om = {128: 16 * 8, 64: 8 * 8, 32: 4 * 8, 16: 2 * 8}[nb]   # 16,8,4,2 twiddle doubles per leaf
        K[leaf] = entry([('b', 'dre', 'inout', lambda s, nb=nb: nb), ('b', 'dim', 'inout', lambda s, nb=nb: nb),
                         ('b', 'pom', 'in', lambda s, om=om: om)], [S()])
    # ---- cplx -----------------------------------------------------------------------------------------------
    K['cplx_fft'] = entry([('t', 'new_cplx_fft_precomp', [lambda s: s['m'], lambda s: 0]), ('b', 'data', 'inout', M16)],
                          dom_m(tier))
    K['cplx_ifft'] = entry([('t', 'new_cplx_ifft_precomp', [lambda s: s['m'], lambda s: 0]), ('b', 'data', 'inout', M16)],
                           dom_m(tier))
    K['cplx_fftvec_mul'] = entry(fftvec3('new_cplx_fftvec_mul_precomp'), dom_m(tier), alias=[('r', 'a'), ('r', 'b')])
    K['cplx_fftvec_addmul'] = entry(fftvec3('new_cplx_fftvec_addmul_precomp', 'inout'), dom_m(tier))
    for n, lo in (('cplx_fftvec_mul_ref', 1), ('cplx_fftvec_mul_fma', 8)):
        K[n] = entry(fftvec3('new_cplx_fftvec_mul_precomp'), dom_m(tier, lo), alias=[('r', 'a'), ('r', 'b')])
    for n, lo in (('cplx_fftvec_addmul_ref', 1), ('cplx_fftvec_addmul_fma', 8), ('cplx_fftvec_addmul_sse', 2),
                  ('cplx_fftvec_addmul_avx512', 8)):
        K[n] = entry(fftvec3('new_cplx_fftvec_addmul_precomp', 'inout'), dom_m(tier, lo))
    K['cplx_from_znx32'] = entry([('t', 'new_cplx_from_znx32_precomp', [lambda s: s['m']]), ('b', 'r', 'out', M16),
                                  ('b', 'a', 'in', lambda s: 8 * s['m'])], dom_m(tier))
    K['cplx_from_tnx32'] = entry([('t', 'new_cplx_from_tnx32_precomp', [lambda s: s['m']]), ('b', 'r', 'out', M16),
                                  ('b', 'a', 'in', lambda s: 8 * s['m'])], dom_m(tier))
    K['cplx_to_tnx32'] = entry([('t', 'new_cplx_to_tnx32_precomp', [lambda s: s['m'], lambda s: float(s['m']), lambda s: s['ov']]),
                                ('b', 'r', 'out', lambda s: 8 * s['m']), ('b', 'a', 'in', M16)],
                               [dict(d, ov=ov) for d in dom_m(tier) for ov in (0, 18, 19, 52)])
    # ---- reim4 ----------------------------------------------------------------------------------------------
    for n in ('reim4_extract_1blk_from_reim_ref', 'reim4_extract_1blk_from_reim_avx'):
        K[n] = entry([('i', lambda s: s['m']), ('i', lambda s: s['blk']), ('b', 'dst', 'out', lambda s: 64),
                      ('bx', 'src', 'in', M16, lambda s: [(32 * s['blk'], 32 * s['blk'] + 32),
                                                          (8 * s['m'] + 32 * s['blk'], 8 * s['m'] + 32 * s['blk'] + 32)])],
                     [d for d in dom_blk(tier) if d['nrows'] == 1])
    for n in ('reim4_save_1blk_to_reim_ref', 'reim4_save_1blk_to_reim_avx'):
        K[n] = entry([('i', lambda s: s['m']), ('i', lambda s: s['blk']),
                      ('bx', 'dst', 'out', M16, lambda s: [(32 * s['blk'], 32 * s['blk'] + 32),
                                                           (8 * s['m'] + 32 * s['blk'], 8 * s['m'] + 32 * s['blk'] + 32)]),
                      ('b', 'src', 'in', lambda s: 64)], [d for d in dom_blk(tier) if d['nrows'] == 1])

    def rows_decl(stride):
        def f(s):
            out = []
            st = stride(s)
            for r in range(s['nrows']):
                out.append((r * st + 32 * s['blk'], r * st + 32 * s['blk'] + 32))
                out.append((r * st + 8 * s['m'] + 32 * s['blk'], r * st + 8 * s['m'] + 32 * s['blk'] + 32))
            return out
        return f

    for n in ('reim4_extract_1blk_from_contiguous_reim_ref', 'reim4_extract_1blk_from_contiguous_reim_avx'):
        K[n] = entry([('i', lambda s: s['m']), ('i', lambda s: s['nrows']), ('i', lambda s: s['blk']),
                      ('b', 'dst', 'out', lambda s: 64 * s['nrows']),
                      ('bx', 'src', 'in', lambda s: 16 * s['m'] * s['nrows'], rows_decl(lambda s: 16 * s['m']))], dom_blk(tier))
    for n in ('reim4_extract_1blk_from_contiguous_reim_sl_ref', 'reim4_extract_1blk_from_contiguous_reim_sl_avx'):
        K[n] = entry([('i', lambda s: s['m']), ('i', lambda s: s['sl']), ('i', lambda s: s['nrows']), ('i', lambda s: s['blk']),
                      ('b', 'dst', 'out', lambda s: 64 * s['nrows']),
                      ('bx', 'src', 'in', lambda s: (8 * s['sl'] * (s['nrows'] - 1) + 16 * s['m']) if s['nrows'] else 0,
                       rows_decl(lambda s: 8 * s['sl']))], dom_blk(tier))
    for n in ('reim4_vec_mat1col_product_ref', 'reim4_vec_mat1col_product_avx2'):
        K[n] = entry([('i', lambda s: s['nrows']), ('b', 'dst', 'out', lambda s: 64), ('b', 'u', 'in', lambda s: 64 * s['nrows']),
                      ('b', 'v', 'in', lambda s: 64 * s['nrows'])], dom_rows(tier))
    for n in ('reim4_vec_mat2cols_product_ref', 'reim4_vec_mat2cols_product_avx2'):
        K[n] = entry([('i', lambda s: s['nrows']), ('b', 'dst', 'out', lambda s: 128), ('b', 'u', 'in', lambda s: 64 * s['nrows']),
                      ('b', 'v', 'in', lambda s: 128 * s['nrows'])], dom_rows(tier))
    K['reim4_fftvec_mul'] = entry(fftvec3('new_reim4_fftvec_mul_precomp'), dom_m(tier, 4), alias=[('r', 'a'), ('r', 'b')])
    K['reim4_fftvec_addmul'] = entry(fftvec3('new_reim4_fftvec_addmul_precomp', 'inout'), dom_m(tier, 4))
    K['reim4_from_cplx'] = entry([('t', 'new_reim4_from_cplx_precomp', [lambda s: s['m']]), ('b', 'r', 'out', M16),
                                  ('b', 'a', 'in', M16)], dom_m(tier, 4))
    K['reim4_to_cplx'] = entry([('t', 'new_reim4_to_cplx_precomp', [lambda s: s['m']]), ('b', 'r', 'out', M16),
                                ('b', 'a', 'in', M16)], dom_m(tier, 4))

    def conv_reads(which):
        def f(s):
            out = []
            for kk in range(s['k'], s['k'] + s.get('ncoef', 1)):
                if kk >= s['sizea'] + s['sizeb']:
                    continue
                for j in range(max(0, kk + 1 - s['sizea']), min(s['sizeb'], kk + 1)):
                    i = kk - j
                    out.append((64 * i, 64 * i + 64) if which == 'a' else (64 * j, 64 * j + 64))
            return out
        return f

    K['reim4_convolution_1coeff_ref'] = entry(
        [('i', lambda s: s['k']), ('b', 'dest', 'out', lambda s: 64), ('b', 'a', 'in', lambda s: 64 * s['sizea']),
         ('i', lambda s: s['sizea']), ('b', 'b', 'in', lambda s: 64 * s['sizeb']), ('i', lambda s: s['sizeb'])], dom_conv(tier))
    K['reim4_convolution_2coeff_ref'] = entry(
        [('i', lambda s: s['k']), ('b', 'dest', 'out', lambda s: 128), ('b', 'a', 'in', lambda s: 64 * s['sizea']),
         ('i', lambda s: s['sizea']), ('b', 'b', 'in', lambda s: 64 * s['sizeb']), ('i', lambda s: s['sizeb'])], dom_conv(tier))
    K['reim4_convolution_ref'] = entry(
        [('b', 'dest', 'out', lambda s: 64 * s['dest_size']), ('i', lambda s: s['dest_size']), ('i', lambda s: s['dest_offset']),
         ('b', 'a', 'in', lambda s: 64 * s['sizea']), ('i', lambda s: s['sizea']), ('b', 'b', 'in', lambda s: 64 * s['sizeb']),
         ('i', lambda s: s['sizeb'])], dom_conv(tier))
    # ---- q120 -----------------------------------------------------------------------------------------------
    for lay, xb, yb in (('baa', 32, 32), ('bbb', 32, 32), ('bbc', 32, 32)):
        for impl in ('ref', 'avx2'):
            K['q120_vec_mat1col_product_%s_%s' % (lay, impl)] = entry(
                [('t', 'q120_new_vec_mat1col_product_%s_precomp' % lay, []), ('i', lambda s: s['ell']),
                 ('b', 'res', 'out', lambda s: 32), ('b', 'x', 'in', lambda s, xb=xb: xb * s['ell']),
                 ('b', 'y', 'in', lambda s, yb=yb: yb * s['ell'])], dom_ell(tier))
    for impl in ('ref', 'avx2'):
        K['q120x2_vec_mat1col_product_bbc_%s' % impl] = entry(
            [('t', 'q120_new_vec_mat1col_product_bbc_precomp', []), ('i', lambda s: s['ell']), ('b', 'res', 'out', lambda s: 64),
             ('b', 'x', 'in', lambda s: 64 * s['ell']), ('b', 'y', 'in', lambda s: 64 * s['ell'])], dom_ell(tier))
        K['q120x2_vec_mat2cols_product_bbc_%s' % impl] = entry(
            [('t', 'q120_new_vec_mat1col_product_bbc_precomp', []), ('i', lambda s: s['ell']), ('b', 'res', 'out', lambda s: 128),
             ('b', 'x', 'in', lambda s: 64 * s['ell']), ('b', 'y', 'in', lambda s: 128 * s['ell'])], dom_ell(tier))
    dq = [S(nn=n, blk=b, nrows=r) for n in (2, 4, 16) for b in sorted({0, n // 2 - 1}) for r in (0, 1, 3)]
    K['q120x2_extract_1blk_from_q120b_ref'] = entry(
        [('i', lambda s: s['nn']), ('i', lambda s: s['blk']), ('b', 'dst', 'out', lambda s: 64),
         ('bx', 'src', 'in', lambda s: 32 * s['nn'], lambda s: [(64 * s['blk'], 64 * s['blk'] + 64)])],
        [d for d in dq if d['nrows'] == 1])
    K['q120x2_extract_1blk_from_contiguous_q120b_ref'] = entry(
        [('i', lambda s: s['nn']), ('i', lambda s: s['nrows']), ('i', lambda s: s['blk']),
         ('b', 'dst', 'out', lambda s: 64 * s['nrows']),
         ('bx', 'src', 'in', lambda s: 32 * s['nn'] * s['nrows'],
          lambda s: [(32 * s['nn'] * r + 64 * s['blk'], 32 * s['nn'] * r + 64 * s['blk'] + 64) for r in range(s['nrows'])])], dq)
    K['q120x2b_save_1blk_to_q120b_ref'] = entry(
        [('i', lambda s: s['nn']), ('i', lambda s: s['blk']),
         ('bx', 'dest', 'out', lambda s: 32 * s['nn'], lambda s: [(64 * s['blk'], 64 * s['blk'] + 64)]),
         ('b', 'src', 'in', lambda s: 64)], [d for d in dq if d['nrows'] == 1])
    dn = dom_nn(tier)
    K['q120_b_from_znx64_simple'] = entry([('i', lambda s: s['nn']), ('b', 'res', 'out', lambda s: 32 * s['nn']),
                                           ('b', 'x', 'in', N8)], dn)
    K['q120_c_from_znx64_simple'] = entry([('i', lambda s: s['nn']), ('b', 'res', 'out', lambda s: 32 * s['nn']),
                                           ('b', 'x', 'in', N8)], dn)
    K['q120_b_to_znx128_simple'] = entry([('i', lambda s: s['nn']), ('b', 'res', 'out', lambda s: 16 * s['nn']),
                                          ('b', 'x', 'in', lambda s: 32 * s['nn'])], dn)
    K['q120_c_from_b_simple'] = entry([('i', lambda s: s['nn']), ('b', 'res', 'out', lambda s: 32 * s['nn']),
                                       ('b', 'x', 'in', lambda s: 32 * s['nn'])], dn)
    for n in ('q120_add_bbb_simple', 'q120_add_ccc_simple'):
        K[n] = entry([('i', lambda s: s['nn']), ('b', 'res', 'out', lambda s: 32 * s['nn']),
                      ('b', 'x', 'in', lambda s: 32 * s['nn']), ('b', 'y', 'in', lambda s: 32 * s['nn'])], dn)
    K['q120_ntt_bb_avx2'] = entry([('t', 'q120_new_ntt_bb_precomp', [lambda s: s['nn']]),
                                   ('b', 'data', 'inout', lambda s: 32 * s['nn'])], dn, cpus=('accel',))
    K['q120_intt_bb_avx2'] = entry([('t', 'q120_new_intt_bb_precomp', [lambda s: s['nn']]),
                                    ('b', 'data', 'inout', lambda s: 32 * s['nn'])], dn, cpus=('accel',))
    return K


class KBox:
    def __init__(self, lib):
        self.lib = lib
        self.ctx = {}
        self.tables = {}

    def get(self, cpu, expand):
        k = (cpu, expand)
        if k not in self.ctx:
            self.ctx[k] = Ctx(self.lib, cpu=cpu, expand=bool(expand), trusted=TRUSTED, values=(expand == 'values'))
        return self.ctx[k]

    def table(self, c, cpu, expand, ctor, args):
        k = (cpu, expand, ctor, tuple(args))
        if k not in self.tables:
            self.tables[k] = c.construct(ctor, list(args))
        return self.tables[k]

    def instantiate(self, name, spec, shape, cpu, alias=None, expand=False):
        """one instantiation; a kernel whose control flow depends on data values is run once per path (spqa.paths): the
        returned run is the first path, its events are those of all paths (may-semantics for the footprint clauses) and
        `run.paths` lists every path with its condition for the value clauses"""
        c = self.get(cpu, expand)
        if getattr(c.m, 'decisions', None) is None and not getattr(self, '_in_paths', False):
            try:
                return self._instantiate(name, spec, shape, cpu, alias, expand)
            except Unsupported as e:
                if 'data-dependent control flow' not in str(e):
                    raise
                from .paths import enumerate_paths
                from .vals import NeedDecision
                self._in_paths = True
                try:
                    paths = enumerate_paths(c.m, lambda: self._instantiate(name, spec, shape, cpu, alias, expand))
                except NeedDecision:
                    raise Unsupported(str(e) + ' (more than 64 paths)')
                finally:
                    self._in_paths = False
                first = paths[0][0]
                ev = []
                for r_, log in paths:
                    ev += list(r_.events)
                first.events = ev
                first.paths = paths
                return first
        return self._instantiate(name, spec, shape, cpu, alias, expand)

    def _instantiate(self, name, spec, shape, cpu, alias=None, expand=False):
        c = self.get(cpu, expand)
        fname = spec.get('fn', name)
        run = Run(name, shape, cpu, 0, alias)
        run.desc = lambda: dict(shape, cpu=cpu, **({'alias': '%s==%s' % alias} if alias else {}))
        args = []
        made = {}
        for a in spec['args']:
            k = a[0]
            if k == 'i':
                args.append(a[1](shape) & M64)
            elif k == 'f':
                args.append(float(a[1](shape)))
            elif k == 'null':
                args.append(0)
            elif k == 't':
                t = self.table(c, cpu, expand, a[1], [x(shape) for x in a[2]])
                if not isinstance(t, Ptr):
                    raise Aborted('constructor %s returned %r' % (a[1], t))
                args.append(t)
            elif k in ('b', 'bx'):
                nm, role, nb = a[1], a[2], a[3](shape)
                decl = RG.normalize(a[4](shape)) if k == 'bx' else RG.normalize([(0, nb)])
                b = Buf(nm, 'buf', role, None, decl)
                b.nbytes = nb
                made[nm] = b
                args.append(nm)
        for nm, b in made.items():
            if alias and nm == alias[1]:
                continue
            b.ptr = c.buf(nm, b.nbytes, b.role)
        if alias:
            o, i = alias
            made[i].ptr = Ptr(made[o].ptr.obj, 0, i)
        args = [made[x].ptr if isinstance(x, str) else x for x in args]
        run.bufs = made
        st, ret, ev = c.run(fname, args)
        run.status, run.ret, run.events = st, ret, ev
        del c.m.events[:]
        return run


def sweep_kernels(lib, R, tier, names=None, collect=None):
    """instantiate every kernel contract entry; record one obligation per (clause-group, kernel, cpu)"""
    from .sweep import CLAUSES
    K = KERNELS(tier)
    box = KBox(lib)
    nruns = 0
    nk = 0
    for name, spec in sorted(K.items()):
        if names and name not in names:
            continue
        fname = spec.get('fn', name)
        if lib.fn(fname) is None:
            R.broke('kernel %s of the contract table vanished' % fname)
            continue
        nk += 1
        for cpu in spec.get('cpus', ('accel', 'generic')):
            found = {}
            runs = 0
            for sh in spec['dom']:
                for exp in (False, True):
                    if exp and max([v for v in sh.values() if isinstance(v, int)] + [0]) > 4096:
                        continue
                    try:
                        run = box.instantiate(name, spec, sh, cpu, expand=exp)
                    except Aborted as e:
                        found.setdefault('aborts-in-domain', []).append(
                            {'detail': 'table constructor fails: %s' % e, 'shape': dict(sh, cpu=cpu), 'loc': None})
                        continue
                    except (Unsupported, NeedEnum) as e:
                        R.broke('%s %s: %s' % (name, sh, e))
                        continue
                    runs += 1
                    if collect is not None:
                        collect(name, spec, run, exp)
                    for fd in check_run(run, ordered=exp):
                        found.setdefault(fd['clause'], []).append(fd)
            nruns += runs
            subj = 'kernel %s [%s]' % (name, cpu)
            if found:
                for cl, fl in sorted(found.items()):
                    f0 = fl[0]
                    R.ob(cl, subj, 'refuted', detail='%s (%d shape(s))' % (f0['detail'], len(fl)),
                         key='%s:%s:%s' % (fname, cl, (f0['loc'] or '').split('/')[-1]), witness=f0['shape'], loc=f0['loc'])
            else:
                R.ob('kernel-memory-contract', subj, 'holds', detail='%d instantiations' % runs, nontrivial=runs > 0)
    R.extra['kernel_entries'] = nk
    return nruns, (1500 if tier == 'quick' else 3000)
