"""spqa.harness — builds abstract call contexts for the region engine: module / table objects obtained by
instantiating the library's own constructors, caller buffers with declared extents, and runs one entry point."""
from .build import AnalysisBroken
from .machine import Machine, Runaway
from .vals import Aborted, NeedEnum, Obj, Ptr, Unsupported, is_int

FFT64, NTT120 = 0, 1


class Ctx:
    """one machine + the objects of one abstract call"""

    def __init__(self, lib, cpu='accel', expand=False, trusted=None, loop_cap=1 << 22, values=False, intervals=None):
        self.lib = lib
        if intervals is not None:
            from .imachine import IntervalMachine
            self.m = IntervalMachine(lib, cpu=cpu, trusted=trusted, atom_range=intervals if callable(intervals) else None)
        elif values:
            from .vmachine import ValueMachine
            self.m = ValueMachine(lib, cpu=cpu, trusted=trusted)
        else:
            self.m = Machine(lib, cpu=cpu, expand=expand, trusted=trusted, loop_cap=loop_cap)
        self.objs = {}
        self.ctor_events = []

    def construct(self, fname, args):
        """run a constructor quietly; every object it allocates is table memory"""
        f = self.lib.fn(fname)
        if f is None:
            raise AnalysisBroken('constructor %s not found' % fname)
        n0 = len(self.m.events)
        r = self.m.call(f, args)
        evs = self.m.events[n0:]
        del self.m.events[n0:]
        self.ctor_events.append((fname, evs))
        for e in evs:
            if e.kind == 'A' and e.obj is not None:
                e.obj.role = 'table'
        return r

    def module(self, N, mtype=FFT64):
        return self.construct('new_module_info', [N, mtype])

    def buf(self, name, size, role, tracked=False):
        o = Obj('arg', name, size, role=role, fields=tracked)
        o.birth = 0
        self.objs[name] = o
        return Ptr(o, 0, name)

    def alias(self, name, ptr, role=None):
        """another parameter pointing into the same object (provenance label differs)"""
        return Ptr(ptr.obj, ptr.off, name)

    def run(self, fname, args):
        f = self.lib.fn(fname) if isinstance(fname, str) else fname
        if f is None:
            raise AnalysisBroken('function %s not found' % fname)
        n0 = len(self.m.events)
        status = 'ok'
        ret = None
        try:
            ret = self.m.call(f, args)
        except Aborted as e:
            status = ('aborts', e.where)
        except Runaway as e:
            status = ('runaway', e.loc, str(e.trip), e.fn)
        evs = self.m.events[n0:]
        return status, ret, evs
