"""spqa.linform — linear forms with high-precision real coefficients extracted from floating-point value DAGs.

The E4 expression of a transform output is read as arithmetic over the reals (fma(a,b,c) = a*b+c, xor with the sign
bit = negation); with the twiddle factors concrete (the double values the table constructor stored) every output is a
linear form  sum_i c_i * x_i  in the abstract input values.  Coefficients are computed in 192-bit binary floating point,
i.e. exactly up to ~1e-55: they are the matrix the code would apply in exact arithmetic with its stored tables."""
from mpmath import mp, mpf

from .values import Sym
from .vals import is_int

mp.prec = 192


class NotLinear(Exception):
    pass


class LinForms:
    def __init__(self):
        self.memo = {}

    def of(self, v):
        """returns (const mpf, {atom key: mpf})"""
        if isinstance(v, float):
            return (mpf(v), {})
        if is_int(v):
            return (mpf(v), {})
        if not isinstance(v, Sym):
            raise NotLinear('opaque value')
        r = self.memo.get(v)
        if r is not None:
            return r
        e = v.e
        op = e[0]
        if op == 'in':
            r = (mpf(0), {e: mpf(1)})
        elif op in ('fadd', 'fsub'):
            a, b = self.of(e[1]), self.of(e[2])
            r = self._add(a, b, 1 if op == 'fadd' else -1)
        elif op == 'fneg':
            a = self.of(e[1])
            r = (-a[0], {k: -c for k, c in a[1].items()})
        elif op == 'fmul':
            r = self._mul(self.of(e[1]), self.of(e[2]))
        elif op == 'fma':
            r = self._add(self._mul(self.of(e[1]), self.of(e[2])), self.of(e[3]), 1)
        elif op == 'fdiv':
            b = self.of(e[2])
            if b[1] or b[0] == 0:
                raise NotLinear('division by data')
            a = self.of(e[1])
            r = (a[0] / b[0], {k: c / b[0] for k, c in a[1].items()})
        elif op == 'xor' and e[1] == 64 and (1 << 63) in e[2:4]:
            x = e[2] if is_int(e[3]) else e[3]
            a = self.of(x)
            r = (-a[0], {k: -c for k, c in a[1].items()})
        else:
            raise NotLinear('node %s' % op)
        self.memo[v] = r
        return r

    def _add(self, a, b, s):
        d = dict(a[1])
        for k, c in b[1].items():
            d[k] = d.get(k, mpf(0)) + s * c
        return (a[0] + s * b[0], d)

    def _mul(self, a, b):
        if a[1] and b[1]:
            raise NotLinear('product of two data-dependent values')
        if b[1]:
            a, b = b, a
        k = b[0]
        return (a[0] * k, {x: c * k for x, c in a[1].items()})


class PolyForms:
    """polynomials of bounded degree with 192-bit real coefficients; atoms = initial contents or uninterpreted nodes"""

    def __init__(self, maxdeg=2, atom_ops=('sitofp', 'uitofp')):
        self.memo = {}
        self.maxdeg = maxdeg
        self.atom_ops = atom_ops

    def of(self, v):
        if isinstance(v, float) or is_int(v):
            return {(): mpf(v)} if v != 0 else {}
        if not isinstance(v, Sym):
            raise NotLinear('opaque value')
        r = self.memo.get(v)
        if r is not None:
            return r
        e = v.e
        op = e[0]
        if op == 'in' or op in self.atom_ops:
            r = {(v,): mpf(1)}
        elif op in ('fadd', 'fsub'):
            r = self._add(self.of(e[1]), self.of(e[2]), 1 if op == 'fadd' else -1)
        elif op == 'fneg':
            r = {m: -c for m, c in self.of(e[1]).items()}
        elif op == 'fmul':
            r = self._mul(self.of(e[1]), self.of(e[2]))
        elif op == 'fma':
            r = self._add(self._mul(self.of(e[1]), self.of(e[2])), self.of(e[3]), 1)
        elif op == 'xor' and e[1] == 64 and (1 << 63) in e[2:4]:
            x = e[2] if is_int(e[3]) else e[3]
            r = {m: -c for m, c in self.of(x).items()}
        else:
            raise NotLinear('node %s' % op)
        self.memo[v] = r
        return r

    def _add(self, a, b, s):
        d = dict(a)
        for k, c in b.items():
            d[k] = d.get(k, mpf(0)) + s * c
        return d

    def _mul(self, a, b):
        d = {}
        for m1, c1 in a.items():
            for m2, c2 in b.items():
                m = tuple(sorted(m1 + m2, key=id))
                if len(m) > self.maxdeg:
                    raise NotLinear('degree above %d' % self.maxdeg)
                d[m] = d.get(m, mpf(0)) + c1 * c2
        return d
