"""spqa.imachine — IntervalMachine: the ordered region engine with *intervals* as data values (E5, eager form).

Used where the value DAG of E4 would be too large (NTT / iNTT for n up to 65536): every data value is an interval of
mathematical integers, table entries are the concrete integers the constructor stored, and every add / mul / shl / sub
whose exact result fits neither the unsigned nor the signed range of its word is recorded with its source location."""
from .machine import Machine
from .vmachine import ValueMachine
from .values import Vec
from .vals import Aff, FnPtr, Opaque, OPAQUE, Ptr, is_int, mask, signed
from .machine import NonAff


class Iv:
    __slots__ = ('lo', 'hi')

    def __init__(self, lo, hi):
        self.lo = lo
        self.hi = hi

    def __repr__(self):
        return '[%d,%d]' % (self.lo, self.hi)


def iv_of(x, bits=64):
    if isinstance(x, Iv):
        return x
    if is_int(x):
        return Iv(x, x)
    return None


class IntervalMachine(ValueMachine):
    def __init__(self, lib, cpu='accel', trusted=None, atom_range=None):
        ValueMachine.__init__(self, lib, cpu=cpu, trusted=trusted)
        self.atom_range = atom_range or (lambda name, off, size: (0, (1 << (8 * size)) - 1))
        self.findings = {}       # loc -> (kind, lo, hi, function)
        self.precision_loss = []  # places where a known relation between values was dropped: a later finding is no proof
        self.nops = 0

    # initial contents of data buffers are intervals given by the layout
    def vload_scalar(self, obj, off, size):
        vs = self._vstore(obj)
        hit = vs.get(off)
        if hit is not None and hit[0] == size:
            return hit[1]
        over = self._overlaps(obj, vs, off, size)
        if not over:
            if obj.kind == 'arg':
                lo, hi = self.atom_range(obj.name, off, size)
                return Iv(lo, hi)
            return OPAQUE
        if len(over) == 1 and over[0][0] <= off and off + size <= over[0][0] + over[0][1]:
            o2, s2, v2 = over[0]
            a = iv_of(v2)
            if a is not None and a.lo >= 0:
                sh = 8 * (off - o2)
                return Iv(0, min((1 << (8 * size)) - 1, a.hi >> sh)) if sh or a.hi >= (1 << (8 * size)) else a
        return Iv(0, (1 << (8 * size)) - 1)

    def _note(self, kind, lo, hi, i):
        loc = getattr(i, 'loc', None)
        if loc not in self.findings:
            self.findings[loc] = (kind, lo, hi, self.stack[-1] if self.stack else '?')

    def _fit(self, lo, hi, bits, kind, i):
        M = 1 << bits
        if (0 <= lo and hi < M) or (-(M >> 1) <= lo and hi < (M >> 1)):
            return Iv(lo, hi)
        self._note(kind, lo, hi, i)
        return Iv(0, M - 1)

    def binop(self, op, a, b, bits, i):
        if isinstance(a, Iv) or isinstance(b, Iv):
            return self.ibin(op, a, b, bits, i)
        return Machine.binop(self, op, a, b, bits, i)

    def sbin(self, op, a, b, bits, i=None):
        return self.ibin(op, a, b, bits, i)

    def ibin(self, op, a, b, bits, i):
        self.nops += 1
        x, y = iv_of(a), iv_of(b)
        M = 1 << bits
        if x is None or y is None:
            return Iv(0, M - 1) if not (isinstance(a, (Ptr, FnPtr)) or isinstance(b, (Ptr, FnPtr))) else OPAQUE
        if op == 'add':
            for p, q in ((x, y), (y, x)):
                if q.lo == q.hi and q.lo >= (M >> 1) and p.lo >= 0 and p.lo - (M - q.lo) >= -(M >> 1):
                    k = M - q.lo
                    return Iv(p.lo - k, p.hi - k)
            return self._fit(x.lo + y.lo, x.hi + y.hi, bits, 'add-wraps', i)
        if op == 'sub':
            return self._fit(x.lo - y.hi, x.hi - y.lo, bits, 'sub-wraps', i)
        if op == 'mul':
            cs = [x.lo * y.lo, x.lo * y.hi, x.hi * y.lo, x.hi * y.hi]
            return self._fit(min(cs), max(cs), bits, 'mul-wraps', i)
        if op == 'shl':
            if y.lo == y.hi and 0 <= y.lo < bits:
                return self._fit(x.lo << y.lo, x.hi << y.lo, bits, 'shl-wraps', i)
            return Iv(0, M - 1)
        if op == 'lshr':
            if x.lo >= 0 and y.lo == y.hi and 0 <= y.lo < bits:
                return Iv(x.lo >> y.lo, x.hi >> y.lo)
            if x.lo >= 0 and y.lo >= 0:
                return Iv(0, x.hi >> min(y.lo, bits - 1))
            return Iv(0, M - 1)
        if op in ('and', 'or', 'xor') and x.lo == x.hi and y.lo == y.hi and x.lo >= 0 and y.lo >= 0:
            r_ = {'and': x.lo & y.lo, 'or': x.lo | y.lo, 'xor': x.lo ^ y.lo}[op]      # two known words: exact
            return Iv(r_, r_)
        if op == 'and':
            if x.lo >= 0 and y.lo >= 0:
                for p, q in ((x, y), (y, x)):
                    if q.lo == q.hi and (q.lo & (q.lo + 1)) == 0 and p.hi <= q.lo:
                        return p
                # masking to 32 bits an operand that is wider: remember it (split multiplication rule is checked on the
                # symbolic engine for the products; here only the magnitude is tracked)
                return Iv(0, min(x.hi, y.hi))
            for p, q in ((x, y), (y, x)):
                if q.lo == q.hi and q.lo >= 0:
                    return Iv(0, q.lo)
            return Iv(0, M - 1)
        if op in ('or', 'xor'):
            if x.lo >= 0 and y.lo >= 0:
                t = max(x.hi, y.hi).bit_length()
                return Iv(max(x.lo, y.lo) if op == 'or' else 0, (1 << t) - 1)
            return Iv(0, M - 1)
        if op == 'urem':
            if x.lo >= 0 and y.lo > 0:
                return x if x.hi < y.lo else Iv(0, min(x.hi, y.hi - 1))
            return Iv(0, M - 1)
        if op == 'udiv':
            if x.lo >= 0 and y.lo > 0:
                return Iv(x.lo // y.hi, x.hi // y.lo)
            return Iv(0, M - 1)
        if op == 'ashr':
            if y.lo == y.hi and 0 <= y.lo < bits and -(M >> 1) <= x.lo and x.hi < (M >> 1):
                return Iv(x.lo >> y.lo, x.hi >> y.lo)
            return Iv(-(M >> 1), (M >> 1) - 1)
        if op == 'srem' and y.lo == y.hi and y.lo > 0:
            if x.lo >= 0 and x.hi < (M >> 1):
                return Iv(0, min(x.hi, y.lo - 1))
            return Iv(-(y.lo - 1), y.lo - 1)
        return Iv(0, M - 1)

    def icmp(self, pred, a, b, bits, i):
        if isinstance(a, Iv) or isinstance(b, Iv):
            x, y = iv_of(a), iv_of(b)
            if x is not None and y is not None and pred in ('ult', 'ule', 'ugt', 'uge') and x.lo >= 0 and y.lo >= 0:
                if pred == 'ult' and x.hi < y.lo:
                    return 1
                if pred == 'ult' and x.lo >= y.hi:
                    return 0
                if pred == 'ugt' and x.lo > y.hi:
                    return 1
                if pred == 'ugt' and x.hi <= y.lo:
                    return 0
            return OPAQUE
        return Machine.icmp(self, pred, a, b, bits, i)

    def cast(self, op, v, i):
        if isinstance(v, Iv):
            sb = i['srcty'].get('bits')
            db = i.ty.get('bits')
            if i.ty.get('k') == 'vec':
                n, eb = i.ty['lanes'], i.ty['elt'].get('bits', 64)
                return Vec([Iv(0, (1 << eb) - 1)] * n, eb, False)
            if op in ('bitcast', 'ptrtoint', 'inttoptr'):
                return v
            if op == 'zext':
                return v if v.lo >= 0 else Iv(0, (1 << sb) - 1)
            if op == 'trunc':
                return v if (v.lo >= 0 and v.hi < (1 << db)) else Iv(0, (1 << db) - 1)
            if op == 'sext':
                return v if (-(1 << (sb - 1)) <= v.lo and v.hi < (1 << (sb - 1))) else Iv(-(1 << (sb - 1)), (1 << (sb - 1)) - 1)
            return OPAQUE
        if isinstance(v, Vec):
            return self.vcast(op, v, i)
        return Machine.cast(self, op, v, i)

    def vcast(self, op, v, i):
        t = i.ty
        if t.get('k') != 'vec':
            return OPAQUE
        n, eb = t['lanes'], t['elt'].get('bits', 64)
        if op == 'bitcast' and n == len(v.lanes):
            return Vec(v.lanes, eb, t['elt'].get('k') == 'fp')
        if op == 'bitcast' and n > len(v.lanes):
            k = n // len(v.lanes)
            out = []
            for l in v.lanes:
                a = iv_of(l)
                for j in range(k):
                    if a is not None and a.lo == a.hi and a.lo >= 0:
                        # a known word (table constant): its parts are known exactly
                        out.append(Iv((a.lo >> (eb * j)) & ((1 << eb) - 1), (a.lo >> (eb * j)) & ((1 << eb) - 1)))
                        continue
                    if a is not None and a.hi >= (1 << eb) and a.lo >= 0:
                        self.precision_loss.append(getattr(i, 'loc', None))     # the parts of a wide range are not independent
                    if a is not None and a.lo >= 0:
                        out.append(Iv(0, min((1 << eb) - 1, a.hi >> (eb * j))) if (j or a.hi >= (1 << eb)) else a)
                    else:
                        out.append(Iv(0, (1 << eb) - 1))
            return Vec(out, eb, False)
        if op == 'bitcast':
            k = len(v.lanes) // n
            out = []
            for j in range(n):
                lo = hi = 0
                for q, p in enumerate(v.lanes[j * k:(j + 1) * k]):
                    a = iv_of(p)
                    if a is None or a.lo < 0:
                        a = Iv(0, (1 << v.ebits) - 1)
                    lo += a.lo << (q * v.ebits)
                    hi += min(a.hi, (1 << v.ebits) - 1) << (q * v.ebits)
                out.append(Iv(lo, hi))
            return Vec(out, eb, False)
        out = []
        for l in v.lanes:
            a = iv_of(l)
            if a is None:
                out.append(Iv(0, (1 << eb) - 1))
            elif op == 'zext':
                out.append(a if a.lo >= 0 else Iv(0, (1 << v.ebits) - 1))
            elif op == 'trunc':
                out.append(a if (a.lo >= 0 and a.hi < (1 << eb)) else Iv(0, (1 << eb) - 1))
            else:
                out.append(Iv(0, (1 << eb) - 1))
        return Vec(out, eb, False)

    def step(self, fr, i, L, sym_key):
        op = i.op
        t = i.ty
        if t.get('k') == 'vec' and op in ('add', 'sub', 'mul', 'and', 'or', 'xor', 'shl', 'lshr', 'ashr'):
            n = t['lanes']
            eb = t['elt'].get('bits', 64)
            a, b = self.lanes_of(self.ref(fr, i.ops[0]), n), self.lanes_of(self.ref(fr, i.ops[1]), n)
            out = []
            for x, y in zip(a, b):
                if is_int(x) and is_int(y):
                    out.append(Machine.binop(self, op, x, y, eb, i))
                else:
                    out.append(self.ibin(op, x, y, eb, i))
            fr.env[i.id] = Vec(out, eb, False)
            return None
        if op == 'select':
            c = self.ref(fr, i.ops[0])
            a, b = self.ref(fr, i.ops[1]), self.ref(fr, i.ops[2])
            if isinstance(c, (Opaque, Iv)) and not isinstance(a, (Vec, Ptr)) and not isinstance(b, (Vec, Ptr)):
                x, y = iv_of(a), iv_of(b)
                if x is not None and y is not None:
                    fr.env[i.id] = Iv(min(x.lo, y.lo), max(x.hi, y.hi))
                    return None
        return ValueMachine.step(self, fr, i, L, sym_key)

    def intrinsic(self, name, args, i):
        t = i.ty
        if name.startswith('llvm.x86.avx2.psrli.q') or name.startswith('llvm.x86.avx2.pslli.q'):
            n = t['lanes']
            la = self.lanes_of(args[0], n)
            sh = args[1]
            op = 'lshr' if 'psrli' in name else 'shl'
            return Vec([Machine.binop(self, op, x, sh, 64, i) if (is_int(x) and is_int(sh)) else self.ibin(op, x, sh, 64, i)
                        for x in la], 64, False)
        if 'psllv.q' in name or 'psrlv.q' in name:
            n = t['lanes']
            la, lb = self.lanes_of(args[0], n), self.lanes_of(args[1], n)
            op = 'lshr' if 'psrlv' in name else 'shl'
            return Vec([Machine.binop(self, op, x, y, 64, i) if (is_int(x) and is_int(y) and y < 64) else self.ibin(op, x, y, 64, i)
                        for x, y in zip(la, lb)], 64, False)
        return ValueMachine.intrinsic(self, name, args, i)

    def store(self, ptr, val, ty, loc, align=0):
        if isinstance(val, Iv) and isinstance(ptr, Ptr) and is_int(ptr.off) and self._is_data_loc(ptr.obj, ptr.off, ty.get('bytes', 8)):
            self.emit('W', ptr, ty.get('bytes', 8), loc, align)
            self.vstore_scalar(ptr.obj, signed(ptr.off, 64), ty.get('bytes', 8), val)
            return
        if isinstance(val, Iv):
            # interval kept in a tracked object (local array)
            if isinstance(ptr, Ptr) and is_int(ptr.off) and ptr.obj.fields is not None:
                size = ty.get('bytes', 8)
                self.emit('W', ptr, size, loc, align)
                obj, off = ptr.obj, ptr.off
                for o2 in [o2 for o2, (sz2, _) in obj.fields.items() if o2 < off + size and off < o2 + sz2]:
                    del obj.fields[o2]
                obj.fields[off] = (size, val)
                return
            val = OPAQUE
        ValueMachine.store(self, ptr, val, ty, loc, align)
