"""spqa.pairs — reference/accelerated kernel pairs derived from the symbol names (suffix families) and checked
against the frozen table tables/kernel_pairs.json."""
import json
import os
import re

from .build import VERIF

SUF = ['_avx2_fma', '_avx_fma', '_bnd50_fma', '_bnd63_fma', '_avx2_bnd50_fma', '_avx2_bnd63_fma', '_avx512', '_avx2', '_avx',
       '_fma', '_sse']
ACC = re.compile(r'_(avx2_fma|avx_fma|avx512|avx2|avx|fma|sse)(_|$)')


def derive(lib):
    names = {f.name for f in lib.exported()}
    pairs = {}
    noref = []
    for n in sorted(names):
        if not ACC.search(n):
            continue
        ref = None
        for s in sorted(SUF, key=len, reverse=True):
            if n.endswith(s):
                base = n[:-len(s)]
                for c in (base + '_ref', base):
                    if c in names and c != n and not ACC.search(c):
                        ref = c
                        break
                break
        if ref is None:
            m = ACC.sub(r'_ref\2', n, count=1)
            if m in names and m != n:
                ref = m
        if ref:
            pairs[n] = ref
        else:
            noref.append(n)
    return pairs, noref


def load_frozen():
    return json.load(open(os.path.join(VERIF, 'tables', 'kernel_pairs.json')))


def is_accelerated(name):
    return bool(ACC.search(name))
