"""spqa.cli — ./check Cxx --tier quick|thorough ; ./check --replay evidence/violations/Cxx-k.json"""
import argparse
import importlib
import json
import os
import sys
import traceback

from .build import AnalysisBroken


def main():
    ap = argparse.ArgumentParser()
    ap.add_argument('prop', nargs='?')
    ap.add_argument('--tier', default=os.environ.get('VERIF_TIER', 'quick'))
    ap.add_argument('--replay')
    a = ap.parse_args()
    if a.replay:
        o = json.load(open(a.replay))
        print(json.dumps(o, indent=1))
        return 0
    if not a.prop:
        ap.error('property id required')
    tier = 'thorough' if a.tier == 'thorough' else 'quick'
    try:
        mod = importlib.import_module('spqa.props.' + a.prop)
    except ModuleNotFoundError:
        print('no check for ' + a.prop, file=sys.stderr)
        return 2
    try:
        return mod.run(tier)
    except AnalysisBroken as e:
        print('[%s] ANALYSIS-BROKEN: %s' % (a.prop, e), file=sys.stderr)
        return 2
    except Exception:
        tb = traceback.format_exc().splitlines()
        print('\n'.join(tb[:6] + ['  ...'] + tb[-12:]) if len(tb) > 24 else '\n'.join(tb), file=sys.stderr)
        print('[%s] ANALYSIS-BROKEN: internal error' % a.prop, file=sys.stderr)
        return 2


if __name__ == '__main__':
    import threading
    threading.stack_size(768 * 1024 * 1024)
    sys.setrecursionlimit(2000000)
    box = {}

    def runner():
        box['rc'] = main()

    th = threading.Thread(target=runner)
    th.start()
    th.join()
    sys.exit(box.get('rc', 2))
