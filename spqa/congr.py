"""spqa.congr — decide `stored word == expected (mod q)` for every input, by range bisection.

The inputs are machine words (unsigned readings).  A word whose *mathematical* meaning is signed contributes
u - 2^bits when its top bit is set.  Input ranges are bisected until, on each piece, the interval engine (E5) finds no
possible wrap, the sign of the wrap-free reading of the result is known, and the congruence is a polynomial identity over
Z/q (ModPoly with the same readings).  A piece where the polynomial still contains an operation the rewriting does not
model gives no verdict."""
from .intervals import Intervals
from .modq import ModPoly
from .values import fmt, sym


def decide(v, q, want, atoms, out_bits=64, out_signed=False, max_pieces=4000):
    """v: result DAG.  atoms: {(name, off, size): signed?}.  want(mp, case) -> expected polynomial, where
    case[(name,off,size)] = 1 if that signed word is negative on the piece.
    Returns (status, detail): status in 'holds' | 'refuted' | 'unknown'."""
    keys = sorted(atoms)
    full = {k: (0, (1 << (8 * k[2])) - 1) for k in keys}
    work = [dict(full)]
    # signed words: split at the sign first
    for k in keys:
        if atoms[k]:
            H = 1 << (8 * k[2] - 1)
            nw = []
            for w in work:
                nw.append(dict(w, **{k: (0, H - 1)}) if False else {**w, k: (0, H - 1)})
                nw.append({**w, k: (H, 2 * H - 1)})
            work = nw
    pieces = 0
    unk = None
    while work:
        w = work.pop()
        pieces += 1
        if pieces > max_pieces:
            return 'unknown', 'range splitting did not converge (%d pieces)' % max_pieces
        I = Intervals(lambda nm, off, size, w=w: w.get((nm, off, size), (0, (1 << (8 * size)) - 1)), fmt)

        def rng(t, I=I):
            return I.ev_all([t])[0]

        def bound(t, I=I):
            r_ = I.ev_all([t])[0]
            return r_[1] if r_ is not None and r_[0] >= 0 else None

        mp = ModPoly(q, None, bound, rng)
        rv = rng(v)
        mixed = rv is None or (not out_signed and rv[0] < 0 <= rv[1])
        if I.findings or mixed:
            # bisect the widest input range
            k = max(keys, key=lambda k: w[k][1] - w[k][0])
            lo, hi = w[k]
            if lo == hi:
                return 'refuted', 'input words %s: %s' % (
                    {'%s+%d' % (a[0], a[1]): w[a][0] for a in keys},
                    repr(I.findings[0])[:200] if I.findings else 'result range %r' % (rv,))
            mid = (lo + hi) // 2
            work += [{**w, k: (lo, mid)}, {**w, k: (mid + 1, hi)}]
            continue
        p = mp.of(v)
        if not out_signed and rv[1] < 0:
            p = mp.add(p, {(): (1 << out_bits) % q})
        case = {k: (1 if (atoms[k] and w[k][0] >= (1 << (8 * k[2] - 1))) else 0) for k in keys}
        exp = want(mp, case)
        if p != exp:
            rngs = ', '.join('%s+%d in [%d, %d]' % (k[0], k[1], w[k][0], w[k][1]) for k in keys)
            if mp.undecided(p):
                # no identity on the whole piece: evaluate a few single inputs of the piece exactly (corner and middle words);
                # a single input on which the congruence fails is a witness
                import itertools
                cands = [sorted({w[k][0], w[k][1], (w[k][0] + w[k][1]) // 2, min(w[k][1], w[k][0] + 12345)}) for k in keys]
                for combo in itertools.islice(itertools.product(*cands), 64):
                    ws = {k: (c, c) for k, c in zip(keys, combo)}
                    I1 = Intervals(lambda nm, off, size, ws=ws: ws.get((nm, off, size), (0, (1 << (8 * size)) - 1)), fmt)
                    r1 = I1.ev_all([v])[0]
                    if r1 is None or r1[0] != r1[1] or I1.findings:
                        continue
                    got = r1[0] + ((1 << out_bits) if (not out_signed and r1[0] < 0) else 0)
                    mp1 = ModPoly(q, None, None, lambda t, I1=I1: I1.ev_all([t])[0])
                    e1 = want(mp1, case)
                    if any(len(m) > 1 for m in e1):
                        continue
                    inv = {a: kk for kk, a in mp1.atoms.items()}
                    val = 0
                    for m, c in e1.items():
                        val += c * (ws[inv[m[0]][1:]][0] if m else 1)
                    if (got - val) % q:
                        return 'refuted', 'input words %s: the stored word is %d, congruent to %d, expected %d (mod %d)' % (
                            {'%s+%d' % (k[0], k[1]): c for k, c in zip(keys, combo)}, got, got % q, val % q, q)
                unk = unk or 'for %s the result is %s: contains an operation the congruence rewriting does not model' % (rngs, mp.show(p))
            else:
                return 'refuted', 'for %s the result is %s, expected %s (mod %d)' % (rngs, mp.show(p), mp.show(exp), q)
    if unk:
        return 'unknown', unk
    return 'holds', '%d pieces' % pieces


def word(mp, key, case, coef=1):
    """polynomial of the mathematical value of an input word (signed words: minus 2^bits when negative)"""
    p = mp.scale(mp.of(sym('in', *key)), coef)
    if case.get(key):
        p = mp.add(p, {(): (coef << (8 * key[2])) % mp.q}, -1)
    return p
