"""spqa.report — obligations, verdicts, evidence files, known findings, exit codes.

exit 0: every obligation holds (KNOWN-FINDING lines for listed, still reproducing findings)
exit 1: at least one refuted obligation that is not listed in known_findings.txt  (VIOLATION line)
exit 2: analysis broken (floor not met, anchor vanished, unknown construct, canary silent)"""
import json
import os
import re
import sys
import time

VERIF = os.path.dirname(os.path.dirname(os.path.abspath(__file__)))
EVID = os.environ.get('SPQA_EVIDENCE') or os.path.join(VERIF, 'evidence')
KNOWN = os.path.join(VERIF, 'known_findings.txt')


def load_known():
    """{(property, key): text} for 'known:' lines; 'fixed:' lines suppress nothing"""
    out = {}
    if not os.path.exists(KNOWN):
        return out
    for line in open(KNOWN):
        line = line.strip()
        m = re.match(r'known:\s+property=(\S+)\s+key=(\S+)\s*(.*)', line)
        if m:
            out[(m.group(1), m.group(2))] = m.group(3)
    return out


class Report:
    def __init__(self, pid, tier, level='other'):
        self.pid = pid
        self.tier = tier
        self.level = level
        self.t0 = time.time()
        self.obligations = []     # dicts
        self.broken = []          # reasons for exit 2
        self.info = []            # informational items
        self.floors = {}
        self.extra = {}
        self.assumptions = []
        self.samples = []
        self.evaluations = 0
        self.nontrivial = set()
        self.rules = []

    # ---- recording --------------------------------------------------------------------------------
    def ob(self, rule, subject, status, detail=None, key=None, witness=None, loc=None, nontrivial=True):
        """status: 'holds' | 'refuted' | 'unknown'"""
        o = {'rule': rule, 'subject': subject, 'status': status}
        if detail is not None:
            o['detail'] = detail
        if witness is not None:
            o['witness'] = witness
        if loc is not None:
            o['loc'] = loc
        o['key'] = key or ('%s:%s' % (subject, rule))
        self.obligations.append(o)
        if nontrivial:
            self.nontrivial.add((rule, subject))
        return o

    def floor(self, name, count, floor):
        self.floors[name] = {'count': count, 'floor': floor}
        if count < floor:
            self.broken.append('floor not met: %s = %d < %d (rule would pass vacuously)' % (name, count, floor))

    def broke(self, why):
        self.broken.append(why)

    def note(self, text):
        self.info.append(text)

    # ---- finishing --------------------------------------------------------------------------------
    def finish(self, explanation, trusted_base=None):
        known = load_known()
        refuted = [o for o in self.obligations if o['status'] == 'refuted']
        unknown = [o for o in self.obligations if o['status'] == 'unknown']
        viol = []
        knownhits = []
        for o in refuted:
            if (self.pid, o['key']) in known:
                knownhits.append(o)
            else:
                viol.append(o)
        for o in unknown:
            self.broken.append('unknown verdict: %s on %s: %s' % (o['rule'], o['subject'], o.get('detail')))
        os.makedirs(os.path.join(EVID, 'violations'), exist_ok=True)
        # remove stale replay files of this property
        for fn in os.listdir(os.path.join(EVID, 'violations')):
            if fn.startswith(self.pid + '-'):
                os.unlink(os.path.join(EVID, 'violations', fn))
        lines = []
        for k, o in enumerate(viol):
            p = os.path.join('evidence', 'violations', '%s-%d.json' % (self.pid, k))
            json.dump(o, open(os.path.join(EVID, 'violations', '%s-%d.json' % (self.pid, k)), 'w'), indent=1, default=str)
            print('[%s] refuted: %s | %s | %s%s' % (self.pid, o['rule'], o['subject'], o.get('detail', ''),
                                                   (' | at ' + str(o['loc'])) if o.get('loc') else ''))
            if o.get('witness') is not None:
                print('    witness: %s' % json.dumps(o['witness'], default=str)[:600])
            lines.append('VIOLATION property=%s replay=%s' % (self.pid, p))
        for o in knownhits:
            print('KNOWN-FINDING: property=%s %s (%s)' % (self.pid, o['key'], known[(self.pid, o['key'])]))
        nobl = len(self.obligations)
        disch = sum(1 for o in self.obligations if o['status'] == 'holds')
        samples = self.samples[:]
        if not samples:
            samples = [{k: v for k, v in o.items() if k in ('rule', 'subject', 'status', 'detail', 'loc')}
                       for o in self.obligations[:6]]
        cov = {
            'explanation': explanation,
            'obligations': nobl,
            'discharged': disch,
            'evaluations': max(self.evaluations, nobl),
            'distinct_nontrivial': len(self.nontrivial),
            'rule': '; '.join(self.rules) if self.rules else 'one obligation per (rule, subject); non-trivial = the rule had at '
                                                             'least one matching construct for that subject',
            'samples': samples,
            'floors': self.floors,
            'exhaustive': False,
            'informational': self.info[:200],
            'known_findings_reproduced': [o['key'] for o in knownhits],
            'checker_cmd': './check %s --tier %s' % (self.pid, self.tier),
            'trusted_base': trusted_base or ['clang/LLVM 14 front end and canonicalisation passes', 'tools/irdump',
                                             'tables/*.json (frozen contracts)'],
        }
        cov.update(self.extra)
        ev = {
            'property_id': self.pid,
            'tier': self.tier,
            'seed': int(os.environ.get('VERIF_SEED', '0') or 0),
            'level': self.level,
            'coverage': cov,
            'assumptions': self.assumptions,
            'wall_s': round(time.time() - self.t0, 3),
            'violations': len(viol),
        }
        if self.broken:
            ev['coverage']['analysis_broken'] = self.broken[:50]
        os.makedirs(EVID, exist_ok=True)
        json.dump(ev, open(os.path.join(EVID, self.pid + '.json'), 'w'), indent=1, default=str)
        print('[%s] tier=%s obligations=%d holds=%d refuted=%d (known %d) unknown=%d wall=%.1fs' % (
            self.pid, self.tier, nobl, disch, len(refuted), len(knownhits), len(unknown), time.time() - self.t0))
        for n, fl in self.floors.items():
            print('    %s: %d (floor %d)' % (n, fl['count'], fl['floor']))
        for l in lines:
            print(l)
        if viol:
            return 1
        if self.broken:
            for b in self.broken[:20]:
                print('[%s] ANALYSIS-BROKEN: %s' % (self.pid, b), file=sys.stderr)
            return 2
        return 0
