"""spqa.regions — byte-interval sets of strided access families (events) and set operations on them."""
from .vals import Aff, is_int, signed


class TooBig(Exception):
    pass


def event_intervals(e, cap=2_000_000):
    """list of (lo, hi) byte intervals [lo,hi) touched by event e (offsets relative to its object), unmerged"""
    off = e.off
    size = e.size + getattr(e, 'slack', 0)   # uncertain position: the whole window the access may touch
    if e.size == 0:
        return []
    if is_int(off):
        return [(signed(off, 64), signed(off, 64) + size)]
    if not isinstance(off, Aff):
        raise TooBig('event with unknown offset')
    counts = dict(e.reps)
    dims = []
    for k, c in off.co.items():
        n = counts.get(k)
        if n is None:
            raise TooBig('affine offset over an unknown counter')
        dims.append((signed(c, 64), n))
    base = signed(off.c0, 64)
    # coalesce contiguous dims: sort by |stride|
    dims.sort(key=lambda d: abs(d[0]))
    run = size
    rest = []
    for st, n in dims:
        if n <= 1:
            continue
        if st == run and st > 0:
            run = run * n
        elif st == -run and st < 0:
            base = base + st * (n - 1)
            run = run * n
        else:
            rest.append((st, n))
    total = 1
    for st, n in rest:
        total *= n
    if total > cap:
        raise TooBig('family of %d intervals' % total)
    out = [base]
    for st, n in rest:
        out = [b + st * j for b in out for j in range(n)]
    return [(b, b + run) for b in out]


def hull(e):
    """(lo, hi) hull of event e, exact integers"""
    off = e.off
    sl = getattr(e, 'slack', 0)
    if is_int(off):
        o = signed(off, 64)
        return o, o + e.size + sl
    counts = dict(e.reps)
    lo = hi = signed(off.c0, 64)
    for k, c in off.co.items():
        n = counts.get(k, 1)
        ext = signed(c, 64) * (n - 1) if n > 0 else 0
        if ext > 0:
            hi += ext
        else:
            lo += ext
    return lo, hi + e.size + sl


def normalize(iv):
    iv = sorted(iv)
    out = []
    for lo, hi in iv:
        if hi <= lo:
            continue
        if out and lo <= out[-1][1]:
            if hi > out[-1][1]:
                out[-1] = (out[-1][0], hi)
        else:
            out.append((lo, hi))
    return out


def subtract(a, b):
    """a \\ b for normalized interval lists"""
    out = []
    j = 0
    for lo, hi in a:
        cur = lo
        while j < len(b) and b[j][1] <= cur:
            j += 1
        k = j
        while k < len(b) and b[k][0] < hi:
            if b[k][0] > cur:
                out.append((cur, b[k][0]))
            cur = max(cur, b[k][1])
            if cur >= hi:
                break
            k += 1
        if cur < hi:
            out.append((cur, hi))
    return out


def intersect(a, b):
    out = []
    i = j = 0
    while i < len(a) and j < len(b):
        lo = max(a[i][0], b[j][0])
        hi = min(a[i][1], b[j][1])
        if lo < hi:
            out.append((lo, hi))
        if a[i][1] < b[j][1]:
            i += 1
        else:
            j += 1
    return out


def size(a):
    return sum(hi - lo for lo, hi in a)


def limb_family(count, stride_bytes, width_bytes, base=0):
    return normalize([(base + i * stride_bytes, base + i * stride_bytes + width_bytes) for i in range(count)])
