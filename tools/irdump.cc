// irdump: dump one LLVM-14 bitcode/IR module as JSON for the spqa Python engines.
// Build: see tools/Makefile.  Usage: irdump <in.bc> <out.json> <unit-name>
#include "llvm/ADT/SmallVector.h"
#include "llvm/Analysis/LoopInfo.h"
#include "llvm/IR/CFG.h"
#include "llvm/IR/Constants.h"
#include "llvm/IR/DataLayout.h"
#include "llvm/IR/DebugInfoMetadata.h"
#include "llvm/IR/DebugLoc.h"
#include "llvm/BinaryFormat/Dwarf.h"
#include "llvm/IR/Dominators.h"
#include "llvm/IR/Function.h"
#include "llvm/IR/GetElementPtrTypeIterator.h"
#include "llvm/IR/GlobalAlias.h"
#include "llvm/IR/GlobalVariable.h"
#include "llvm/IR/InstrTypes.h"
#include "llvm/IR/Instructions.h"
#include "llvm/IR/IntrinsicInst.h"
#include "llvm/IR/LLVMContext.h"
#include "llvm/IR/Module.h"
#include "llvm/IR/Operator.h"
#include "llvm/IRReader/IRReader.h"
#include "llvm/Support/SourceMgr.h"
#include "llvm/Support/raw_ostream.h"

#include <cstdio>
#include <map>
#include <string>

using namespace llvm;

static std::string jstr(const std::string& s) {
  std::string o = "\"";
  for (unsigned char c : s) {
    if (c == '"' || c == '\\') {
      o += '\\';
      o += (char)c;
    } else if (c < 0x20 || c >= 0x7f) {
      char buf[8];
      snprintf(buf, sizeof buf, "\\u%04x", c);
      o += buf;
    } else
      o += (char)c;
  }
  return o + "\"";
}

static std::string tystr(Type* t) {
  std::string s;
  raw_string_ostream os(s);
  t->print(os);
  return os.str();
}



static const DIType* peelTop(const DIType* T) {
  int g = 0;
  while (T && g++ < 12) {
    if (auto* D = dyn_cast<DIDerivedType>(T)) {
      unsigned tag = D->getTag();
      if (tag == dwarf::DW_TAG_const_type || tag == dwarf::DW_TAG_volatile_type || tag == dwarf::DW_TAG_restrict_type ||
          tag == dwarf::DW_TAG_typedef) {
        T = D->getBaseType();
        continue;
      }
    }
    break;
  }
  return T;
}
static std::string ditype(const DIType* T, int depth = 0) {
  if (!T) return "void";
  if (depth > 12) return "?";
  if (auto* D = dyn_cast<DIDerivedType>(T)) {
    unsigned tag = D->getTag();
    if (tag == dwarf::DW_TAG_pointer_type) return ditype(D->getBaseType(), depth + 1) + "*";
    if (tag == dwarf::DW_TAG_const_type) {
      const DIType* B = D->getBaseType();
      if (B && isa<DIDerivedType>(B) && cast<DIDerivedType>(B)->getTag() == dwarf::DW_TAG_pointer_type)
        return ditype(B, depth + 1) + " const";
      return "const " + ditype(B, depth + 1);
    }
    if (tag == dwarf::DW_TAG_typedef) return D->getName().str();
    if (tag == dwarf::DW_TAG_volatile_type) return "volatile " + ditype(D->getBaseType(), depth + 1);
    if (tag == dwarf::DW_TAG_restrict_type) return ditype(D->getBaseType(), depth + 1);
    return D->getName().str();
  }
  if (auto* C = dyn_cast<DICompositeType>(T)) {
    if (C->getTag() == dwarf::DW_TAG_array_type) return ditype(C->getBaseType(), depth + 1) + "[]";
    return (C->getTag() == dwarf::DW_TAG_structure_type ? "struct " : "") + C->getName().str();
  }
  if (isa<DISubroutineType>(T)) return "fn";
  return T->getName().str();
}
// parameter is a pointer whose pointee is const-qualified
static bool constPointee(const DIType* T) {
  const DIType* P = peelTop(T);
  auto* D = P ? dyn_cast<DIDerivedType>(P) : nullptr;
  if (!D || D->getTag() != dwarf::DW_TAG_pointer_type) return false;
  const DIType* X = D->getBaseType();
  int g = 0;
  while (X && g++ < 12) {
    if (auto* XD = dyn_cast<DIDerivedType>(X)) {
      if (XD->getTag() == dwarf::DW_TAG_const_type) return true;
      if (XD->getTag() == dwarf::DW_TAG_typedef || XD->getTag() == dwarf::DW_TAG_volatile_type) {
        X = XD->getBaseType();
        continue;
      }
    }
    break;
  }
  return false;
}

struct Dumper {
  const DataLayout* DL;
  raw_ostream& O;
  std::map<const Value*, unsigned> ids;     // instruction ids per function
  std::map<const BasicBlock*, unsigned> bids;

  Dumper(const DataLayout* dl, raw_ostream& o) : DL(dl), O(o) {}

  // type descriptor: {"s": string, "bits": n, "lanes": n, "elt": "...", "bytes": n, "k": kind}
  std::string tydesc(Type* t) {
    std::string s = "{\"s\":" + jstr(tystr(t));
    const char* k = "other";
    if (t->isIntegerTy()) {
      k = "int";
      s += ",\"bits\":" + std::to_string(t->getIntegerBitWidth());
    } else if (t->isFloatingPointTy()) {
      k = "fp";
      s += ",\"bits\":" + std::to_string(t->getPrimitiveSizeInBits().getFixedSize());
    } else if (t->isPointerTy()) {
      k = "ptr";
      s += ",\"bits\":64";
    } else if (auto* vt = dyn_cast<FixedVectorType>(t)) {
      k = "vec";
      s += ",\"lanes\":" + std::to_string(vt->getNumElements());
      s += ",\"elt\":" + tydesc(vt->getElementType());
    } else if (t->isVoidTy()) {
      k = "void";
    } else if (t->isStructTy()) {
      k = "struct";
    } else if (t->isArrayTy()) {
      k = "array";
    }
    s += std::string(",\"k\":\"") + k + "\"";
    if (t->isSized()) s += ",\"bytes\":" + std::to_string(DL->getTypeStoreSize(t).getFixedSize());
    return s + "}";
  }

  // GEP decomposition: const byte offset + [(ref, scale)]; also the struct-field path
  std::string gepdesc(const GEPOperator* G) {
    APInt off(64, 0);
    std::string terms = "[";
    bool first = true;
    std::string path = "[";  // list of {"struct": name, "field": idx, "off": bytes} for each struct step
    bool pfirst = true;
    int64_t coff = 0;
    for (gep_type_iterator GTI = gep_type_begin(G), E = gep_type_end(G); GTI != E; ++GTI) {
      Value* idx = GTI.getOperand();
      if (StructType* ST = GTI.getStructTypeOrNull()) {
        unsigned f = cast<ConstantInt>(idx)->getZExtValue();
        int64_t fo = DL->getStructLayout(ST)->getElementOffset(f);
        if (!pfirst) path += ",";
        pfirst = false;
        path += "{\"struct\":" + jstr(ST->hasName() ? ST->getName().str() : std::string("<anon>")) +
                ",\"field\":" + std::to_string(f) + ",\"at\":" + std::to_string(coff) + ",\"off\":" + std::to_string(fo) + "}";
        coff += fo;
      } else {
        int64_t sz = DL->getTypeAllocSize(GTI.getIndexedType()).getFixedSize();
        if (auto* CI = dyn_cast<ConstantInt>(idx)) {
          coff += sz * CI->getSExtValue();
        } else {
          if (!first) terms += ",";
          first = false;
          terms += "[" + ref(idx) + "," + std::to_string(sz) + "]";
        }
      }
    }
    terms += "]";
    path += "]";
    return "{\"base\":" + ref(G->getPointerOperand()) + ",\"const\":" + std::to_string(coff) + ",\"terms\":" + terms +
           ",\"srcty\":" + jstr(tystr(G->getSourceElementType())) + ",\"path\":" + path +
           ",\"inbounds\":" + (G->isInBounds() ? "true" : "false") + "}";
  }

  std::string constref(const Constant* C) {
    if (auto* CI = dyn_cast<ConstantInt>(C)) {
      SmallString<40> s;
      CI->getValue().toStringUnsigned(s);
      return "{\"k\":\"c\",\"v\":\"" + std::string(s.c_str()) + "\",\"bits\":" + std::to_string(CI->getBitWidth()) + "}";
    }
    if (auto* CF = dyn_cast<ConstantFP>(C)) {
      SmallString<40> s;
      CF->getValueAPF().bitcastToAPInt().toStringUnsigned(s);
      std::string d = "null";
      if (CF->getType()->isDoubleTy()) {
        char buf[64];
        double v = CF->getValueAPF().convertToDouble();
        if (v == v && v - v == 0) {
          snprintf(buf, sizeof buf, "%.17g", v);
          d = buf;
        }
      } else if (CF->getType()->isFloatTy()) {
        char buf[64];
        double v = CF->getValueAPF().convertToFloat();
        if (v == v && v - v == 0) {
          snprintf(buf, sizeof buf, "%.9g", v);
          d = buf;
        }
      }
      return "{\"k\":\"f\",\"bitsval\":\"" + std::string(s.c_str()) + "\",\"v\":" + d +
             ",\"bits\":" + std::to_string(CF->getType()->getPrimitiveSizeInBits().getFixedSize()) + "}";
    }
    if (isa<ConstantPointerNull>(C)) return "{\"k\":\"n\"}";
    if (isa<UndefValue>(C)) return "{\"k\":\"u\"}";
    if (auto* F = dyn_cast<Function>(C)) return "{\"k\":\"g\",\"v\":" + jstr(F->getName().str()) + ",\"fn\":true}";
    if (auto* G = dyn_cast<GlobalVariable>(C)) return "{\"k\":\"g\",\"v\":" + jstr(G->getName().str()) + "}";
    if (auto* A = dyn_cast<GlobalAlias>(C)) return "{\"k\":\"g\",\"v\":" + jstr(A->getName().str()) + ",\"alias\":true}";
    if (isa<ConstantAggregateZero>(C)) {
      std::string s = "{\"k\":\"z\",\"ty\":" + tydesc(C->getType()) + "}";
      return s;
    }
    if (auto* CDS = dyn_cast<ConstantDataSequential>(C)) {
      std::string s = "{\"k\":\"cv\",\"ty\":" + tydesc(C->getType()) + ",\"elems\":[";
      for (unsigned i = 0; i < CDS->getNumElements(); ++i) {
        if (i) s += ",";
        s += constref(CDS->getElementAsConstant(i));
      }
      return s + "]}";
    }
    if (isa<ConstantVector>(C) || isa<ConstantArray>(C) || isa<ConstantStruct>(C)) {
      std::string s = "{\"k\":\"cv\",\"ty\":" + tydesc(C->getType()) + ",\"elems\":[";
      for (unsigned i = 0; i < C->getNumOperands(); ++i) {
        if (i) s += ",";
        s += constref(cast<Constant>(C->getOperand(i)));
      }
      return s + "]}";
    }
    if (auto* CE = dyn_cast<ConstantExpr>(C)) {
      std::string s = "{\"k\":\"ce\",\"op\":" + jstr(CE->getOpcodeName()) + ",\"ty\":" + tydesc(CE->getType());
      if (auto* G = dyn_cast<GEPOperator>(CE)) {
        s += ",\"gep\":" + gepdesc(G);
      }
      s += ",\"ops\":[";
      for (unsigned i = 0; i < CE->getNumOperands(); ++i) {
        if (i) s += ",";
        s += constref(cast<Constant>(CE->getOperand(i)));
      }
      return s + "]}";
    }
    return "{\"k\":\"?\",\"s\":" + jstr(tystr(C->getType())) + "}";
  }

  std::string ref(const Value* V) {
    if (auto* A = dyn_cast<Argument>(V)) return "{\"k\":\"a\",\"v\":" + std::to_string(A->getArgNo()) + "}";
    if (auto* I = dyn_cast<Instruction>(V)) return "{\"k\":\"i\",\"v\":" + std::to_string(ids[I]) + "}";
    if (auto* B = dyn_cast<BasicBlock>(V)) return "{\"k\":\"b\",\"v\":" + std::to_string(bids[B]) + "}";
    if (auto* C = dyn_cast<Constant>(V)) return constref(C);
    if (isa<MetadataAsValue>(V)) return "{\"k\":\"md\"}";
    if (isa<InlineAsm>(V)) return "{\"k\":\"asm\"}";
    return "{\"k\":\"?\"}";
  }

  std::string locstr(const Instruction& I) {
    const DebugLoc& D = I.getDebugLoc();
    if (!D) return "null";
    auto* S = D->getScope();
    std::string f = S ? S->getFilename().str() : std::string("?");
    std::string r = f + ":" + std::to_string(D.getLine());
    // inlined-at chain: report the outermost (non-header) location too
    const DILocation* L = D.get();
    while (L && L->getInlinedAt()) L = L->getInlinedAt();
    if (L && L != D.get()) {
      r += "@" + L->getScope()->getFilename().str() + ":" + std::to_string(L->getLine());
    }
    return jstr(r);
  }

  void dumpFunction(Function& F, bool& firstF) {
    if (F.isDeclaration()) return;
    if (!firstF) O << ",\n";
    firstF = false;
    ids.clear();
    bids.clear();
    unsigned n = 0, b = 0;
    for (auto& BB : F) {
      bids[&BB] = b++;
      for (auto& I : BB) ids[&I] = n++;
    }
    DominatorTree DT(F);
    LoopInfo LI(DT);

    O << "{\"name\":" << jstr(F.getName().str()) << ",\"internal\":" << (F.hasLocalLinkage() ? "true" : "false");
    O << ",\"ret\":" << tydesc(F.getReturnType());
    O << ",\"vararg\":" << (F.isVarArg() ? "true" : "false");
    if (DISubprogram* SP = F.getSubprogram())
      O << ",\"loc\":" << jstr(SP->getFilename().str() + ":" + std::to_string(SP->getLine()));
    if (DISubprogram* SP = F.getSubprogram()) {
      if (DISubroutineType* ST = SP->getType()) {
        DITypeRefArray TA = ST->getTypeArray();
        if (TA.size() > 0) {
          std::map<unsigned, std::string> names;
          for (auto& BB : F)
            for (auto& I : BB)
              if (auto* DV = dyn_cast<DbgVariableIntrinsic>(&I)) {
                DILocalVariable* V = DV->getVariable();
                if (V && V->getArg() > 0 && V->getScope()->getSubprogram() == SP) names[V->getArg()] = V->getName().str();
              }
          O << ",\"dbgargs\":[";
          for (unsigned k = 1; k < TA.size(); ++k) {
            if (k > 1) O << ",";
            bool cp = constPointee(TA[k]);
            std::string t = ditype(TA[k]);
            O << "{\"ty\":" << jstr(t) << ",\"constptr\":" << (cp ? "true" : "false") << ",\"name\":"
              << jstr(names.count(k) ? names[k] : std::string("")) << "}";
          }
          O << "]";
          O << ",\"dbgret\":" << jstr(ditype(TA[0]));
        }
      }
    }
    O << ",\"args\":[";
    for (auto& A : F.args()) {
      if (A.getArgNo()) O << ",";
      O << "{\"ty\":" << tydesc(A.getType()) << ",\"name\":" << jstr(A.getName().str()) << "}";
    }
    O << "],\n\"blocks\":[";
    bool firstB = true;
    for (auto& BB : F) {
      if (!firstB) O << ",\n";
      firstB = false;
      O << "{\"id\":" << bids[&BB];
      auto* N = DT.getNode(&BB);
      if (N && N->getIDom())
        O << ",\"idom\":" << bids[N->getIDom()->getBlock()];
      else
        O << ",\"idom\":null";
      O << ",\"reachable\":" << (N ? "true" : "false");
      O << ",\"preds\":[";
      bool fp = true;
      for (auto* P : predecessors(&BB)) {
        if (!fp) O << ",";
        fp = false;
        O << bids[P];
      }
      O << "],\"succs\":[";
      fp = true;
      for (auto* S : successors(&BB)) {
        if (!fp) O << ",";
        fp = false;
        O << bids[S];
      }
      O << "],\"instrs\":[";
      bool firstI = true;
      for (auto& I : BB) {
        if (isa<DbgInfoIntrinsic>(&I)) continue;
        if (!firstI) O << ",\n";
        firstI = false;
        O << "{\"id\":" << ids[&I] << ",\"op\":" << jstr(I.getOpcodeName()) << ",\"ty\":" << tydesc(I.getType());
        O << ",\"loc\":" << locstr(I);
        // operands
        if (auto* PN = dyn_cast<PHINode>(&I)) {
          O << ",\"incoming\":[";
          for (unsigned k = 0; k < PN->getNumIncomingValues(); ++k) {
            if (k) O << ",";
            O << "[" << ref(PN->getIncomingValue(k)) << "," << bids[PN->getIncomingBlock(k)] << "]";
          }
          O << "]";
        } else if (auto* CB = dyn_cast<CallBase>(&I)) {
          O << ",\"ops\":[";
          for (unsigned k = 0; k < CB->arg_size(); ++k) {
            if (k) O << ",";
            O << ref(CB->getArgOperand(k));
          }
          O << "]";
          Value* callee = CB->getCalledOperand()->stripPointerCasts();
          if (auto* CF = dyn_cast<Function>(callee)) {
            O << ",\"callee\":" << jstr(CF->getName().str());
            if (CF->isIntrinsic()) O << ",\"intrinsic\":true";
            if (CF->doesNotReturn() || CB->doesNotReturn()) O << ",\"noreturn\":true";
          } else if (auto* GA = dyn_cast<GlobalAlias>(callee)) {
            O << ",\"callee\":" << jstr(GA->getName().str());
          } else {
            O << ",\"callee\":null,\"calleeref\":" << ref(CB->getCalledOperand());
          }
          O << ",\"fty\":" << jstr(tystr(CB->getFunctionType()));
          O << ",\"argtys\":[";
          for (unsigned k = 0; k < CB->arg_size(); ++k) {
            if (k) O << ",";
            O << tydesc(CB->getArgOperand(k)->getType());
          }
          O << "]";
        } else if (auto* G = dyn_cast<GetElementPtrInst>(&I)) {
          O << ",\"gep\":" << gepdesc(cast<GEPOperator>(G));
        } else if (auto* SW = dyn_cast<SwitchInst>(&I)) {
          O << ",\"ops\":[" << ref(SW->getCondition()) << "],\"default\":" << bids[SW->getDefaultDest()] << ",\"cases\":[";
          bool fc = true;
          for (auto& C : SW->cases()) {
            if (!fc) O << ",";
            fc = false;
            SmallString<40> s;
            C.getCaseValue()->getValue().toStringUnsigned(s);
            O << "[\"" << s.c_str() << "\"," << bids[C.getCaseSuccessor()] << "]";
          }
          O << "]";
        } else if (auto* BR = dyn_cast<BranchInst>(&I)) {
          if (BR->isConditional())
            O << ",\"ops\":[" << ref(BR->getCondition()) << "],\"then\":" << bids[BR->getSuccessor(0)]
              << ",\"else\":" << bids[BR->getSuccessor(1)];
          else
            O << ",\"ops\":[],\"then\":" << bids[BR->getSuccessor(0)];
        } else {
          O << ",\"ops\":[";
          for (unsigned k = 0; k < I.getNumOperands(); ++k) {
            if (k) O << ",";
            O << ref(I.getOperand(k));
          }
          O << "]";
        }
        if (auto* C = dyn_cast<CmpInst>(&I)) O << ",\"pred\":" << jstr(CmpInst::getPredicateName(C->getPredicate()).str());
        if (auto* L = dyn_cast<LoadInst>(&I)) {
          O << ",\"align\":" << L->getAlign().value() << ",\"volatile\":" << (L->isVolatile() ? "true" : "false");
          O << ",\"atomic\":" << (L->isAtomic() ? "true" : "false");
        }
        if (auto* S = dyn_cast<StoreInst>(&I)) {
          O << ",\"align\":" << S->getAlign().value() << ",\"valty\":" << tydesc(S->getValueOperand()->getType());
          O << ",\"atomic\":" << (S->isAtomic() ? "true" : "false");
        }
        if (auto* A = dyn_cast<AllocaInst>(&I)) {
          O << ",\"allocty\":" << tydesc(A->getAllocatedType()) << ",\"align\":" << A->getAlign().value();
          if (A->getAllocatedType()->isSized())
            O << ",\"allocbytes\":" << DL->getTypeAllocSize(A->getAllocatedType()).getFixedSize();
        }
        if (auto* SV = dyn_cast<ShuffleVectorInst>(&I)) {
          O << ",\"mask\":[";
          bool fm = true;
          for (int m : SV->getShuffleMask()) {
            if (!fm) O << ",";
            fm = false;
            O << m;
          }
          O << "]";
        }
        if (auto* EV = dyn_cast<ExtractValueInst>(&I)) {
          O << ",\"indices\":[";
          bool fm = true;
          for (unsigned m : EV->getIndices()) {
            if (!fm) O << ",";
            fm = false;
            O << m;
          }
          O << "]";
        }
        if (auto* IV = dyn_cast<InsertValueInst>(&I)) {
          O << ",\"indices\":[";
          bool fm = true;
          for (unsigned m : IV->getIndices()) {
            if (!fm) O << ",";
            fm = false;
            O << m;
          }
          O << "]";
        }
        if (auto* CI = dyn_cast<CastInst>(&I)) O << ",\"srcty\":" << tydesc(CI->getSrcTy());
        if (auto* BO = dyn_cast<OverflowingBinaryOperator>(&I)) {
          O << ",\"nuw\":" << (BO->hasNoUnsignedWrap() ? "true" : "false") << ",\"nsw\":"
            << (BO->hasNoSignedWrap() ? "true" : "false");
        }
        O << "}";
      }
      O << "]}";
    }
    O << "],\n\"loops\":[";
    // loops in preorder
    SmallVector<Loop*, 8> work(LI.begin(), LI.end());
    std::vector<Loop*> all;
    while (!work.empty()) {
      Loop* L = work.pop_back_val();
      all.push_back(L);
      for (Loop* S : *L) work.push_back(S);
    }
    std::map<Loop*, unsigned> lid;
    for (unsigned i = 0; i < all.size(); ++i) lid[all[i]] = i;
    for (unsigned i = 0; i < all.size(); ++i) {
      Loop* L = all[i];
      if (i) O << ",";
      O << "{\"id\":" << i << ",\"parent\":";
      if (L->getParentLoop())
        O << lid[L->getParentLoop()];
      else
        O << "null";
      O << ",\"depth\":" << L->getLoopDepth();
      O << ",\"header\":" << bids[L->getHeader()];
      O << ",\"preheader\":";
      if (L->getLoopPreheader())
        O << bids[L->getLoopPreheader()];
      else
        O << "null";
      SmallVector<BasicBlock*, 4> latches;
      L->getLoopLatches(latches);
      O << ",\"latches\":[";
      for (unsigned k = 0; k < latches.size(); ++k) {
        if (k) O << ",";
        O << bids[latches[k]];
      }
      O << "],\"blocks\":[";
      bool fb = true;
      for (auto* BB : L->blocks()) {
        if (!fb) O << ",";
        fb = false;
        O << bids[BB];
      }
      O << "],\"exits\":[";  // exiting edges [from, to]
      SmallVector<std::pair<BasicBlock*, BasicBlock*>, 4> edges;
      L->getExitEdges(edges);
      for (unsigned k = 0; k < edges.size(); ++k) {
        if (k) O << ",";
        O << "[" << bids[edges[k].first] << "," << bids[edges[k].second] << "]";
      }
      O << "]}";
    }
    O << "]}";
  }

  void dumpModule(Module& M, const std::string& unit) {
    O << "{\"unit\":" << jstr(unit) << ",\"datalayout\":" << jstr(M.getDataLayoutStr()) << ",\n\"structs\":{";
    bool first = true;
    for (StructType* ST : M.getIdentifiedStructTypes()) {
      if (ST->isOpaque()) continue;
      if (!first) O << ",";
      first = false;
      const StructLayout* SL = DL->getStructLayout(ST);
      O << jstr(ST->getName().str()) << ":{\"size\":" << SL->getSizeInBytes() << ",\"fields\":[";
      for (unsigned i = 0; i < ST->getNumElements(); ++i) {
        if (i) O << ",";
        O << "{\"off\":" << SL->getElementOffset(i) << ",\"ty\":" << tydesc(ST->getElementType(i)) << "}";
      }
      O << "]}";
    }
    O << "},\n\"globals\":[";
    first = true;
    for (GlobalVariable& G : M.globals()) {
      if (!first) O << ",\n";
      first = false;
      O << "{\"name\":" << jstr(G.getName().str()) << ",\"const\":" << (G.isConstant() ? "true" : "false")
        << ",\"tls\":" << (G.isThreadLocal() ? "true" : "false") << ",\"internal\":" << (G.hasLocalLinkage() ? "true" : "false")
        << ",\"decl\":" << (G.isDeclaration() ? "true" : "false") << ",\"ty\":" << tydesc(G.getValueType());
      if (G.hasInitializer()) {
        Constant* I = G.getInitializer();
        uint64_t sz = DL->getTypeAllocSize(G.getValueType()).getFixedSize();
        if (sz <= 4096)
          O << ",\"init\":" << constref(I);
        else
          O << ",\"init\":{\"k\":\"big\"}";
      }
      SmallVector<DIGlobalVariableExpression*, 1> dbg;
      G.getDebugInfo(dbg);
      O << "}";
    }
    O << "],\n\"aliases\":{";
    first = true;
    for (GlobalAlias& A : M.aliases()) {
      if (!first) O << ",";
      first = false;
      const GlobalObject* T = A.getAliaseeObject();
      O << jstr(A.getName().str()) << ":" << jstr(T ? T->getName().str() : std::string("?"));
    }
    O << "},\n\"decls\":[";
    first = true;
    for (Function& F : M) {
      if (!F.isDeclaration()) continue;
      if (!first) O << ",";
      first = false;
      O << "{\"name\":" << jstr(F.getName().str()) << ",\"noreturn\":" << (F.doesNotReturn() ? "true" : "false")
        << ",\"intrinsic\":" << (F.isIntrinsic() ? "true" : "false") << "}";
    }
    O << "],\n\"functions\":[\n";
    bool firstF = true;
    for (Function& F : M) dumpFunction(F, firstF);
    O << "\n]}\n";
  }
};

int main(int argc, char** argv) {
  if (argc < 4) {
    fprintf(stderr, "usage: irdump <in.bc|ll> <out.json> <unit-name>\n");
    return 2;
  }
  LLVMContext Ctx;
  SMDiagnostic Err;
  std::unique_ptr<Module> M = parseIRFile(argv[1], Err, Ctx);
  if (!M) {
    Err.print(argv[0], errs());
    return 2;
  }
  std::error_code EC;
  raw_fd_ostream OS(argv[2], EC);
  if (EC) {
    fprintf(stderr, "cannot open %s\n", argv[2]);
    return 2;
  }
  const DataLayout& DL = M->getDataLayout();
  Dumper D(&DL, OS);
  D.dumpModule(*M, argv[3]);
  return 0;
}
