"""one-off generator of tables/roles.json from the debug-info prototypes of the pinned tree.
The output was reviewed by hand and is frozen; the checks read tables/roles.json and derive roles by the same
rule only for exported functions that are not in the table (reported as 'derived' in evidence)."""
import json, re, sys
sys.path.insert(0, '/verif')
from spqa import ir, cg, effects
from spqa.roles import derive_roles

L = ir.load()
out = {}
for f in sorted(L.exported(), key=lambda f: f.name):
    r = derive_roles(f)
    if r is not None:
        out[f.name] = r
json.dump(out, open('/verif/tables/roles.generated.json', 'w'), indent=0, sort_keys=True)
print(len(out))
