"""regenerates MANIFEST.json from the table below (keeps it schema-valid)."""
import json, sys
props = [json.loads(l) for l in open('/verif/properties.jsonl')]
CLAIMED = {
 'C02': dict(cat='other', tech='static analysis: E4 symbolic evaluation; prepared-matrix layout map derived from the producer by expression identity with the module transform; consumer compared with the complex dot product as a real-polynomial identity; entry points compared by normal form',
   text='For both prepared layouts (N<8, N>=8), all nrows x ncols and (a_size,res_size) of the box incl. 0, both CPU paths: vmp_prepare stores the module transform of every matrix entry exactly once and fills PMAT; vmp_apply_dft_to_dft stores in column j exactly sum_{r<min(nrows,a_size)} a_dft[r]*pmat[r][j] under the producer layout, zero beyond; vmp_apply_dft stores the same expressions as dft followed by apply_dft_to_dft. Does NOT decide that the transform-domain product equals the polynomial product within the error budget (numeric).',
   note='N<=16 quick/32 thorough; transforms themselves are C06', ref='DESIGN 3/C02'),
 'C04': dict(cat='other', tech='static analysis: interval analysis (E5) over the symbolic value DAG of each product at ell=MAX_ELL with every operand at the extreme of its layout; tables obtained by instantiating the constructors of the current source',
   text='For the ten q120 vector-matrix product kernels (ref and AVX2): no add/mul/shl/sub intermediate leaves its 64-bit word at maximal length and operands, and every operand cut to 32 bits for a 32x32 multiply either fits or has its high part consumed (detects the 31-bit prime configuration failure). Congruence mod q is C10. NTT/iNTT levels are NOT covered by this check.',
   note='intervals ignore lane correlations (conservative); NTT envelope not covered', ref='DESIGN 3/C04'),
 'C10': dict(cat='other', tech='static analysis: E5 intervals on the conversions; symbolic congruence proof modulo each prime by rewriting E4 expressions to polynomials over Z/q with exact bit-splitting identities',
   text='Conversions of q120_arithmetic_simple.c have no wrapping intermediate for arbitrary inputs and the centred lift lands in +-(Q-1)/2; the reference a*a, b*b, b*c products are congruent to sum x_i*y_i modulo each lane prime and every AVX2 product (incl. the two-coefficient block forms) is congruent to its reference, for ell in the box incl. 0 (zero result). Congruence of the conversions themselves is not decided.',
   note='bit-splitting identities are integer identities valid because C04 shows no wrap; ell<=3 quick / 17 thorough (per-iteration code is uniform)', ref='DESIGN 3/C10'),
 'C16': dict(cat='other', tech='static analysis: wrapper/slot shape from the IR and the instantiated module table; E4 data-dependence (support sets) of opaque outputs',
   text='Decides only the structural conditions: every public wrapper is a pure forwarder to its own slot with its own prototype and every slot is filled for FFT64 on both CPU paths; producers/consumers of VEC_ZNX_DFT/BIG/SVP_PPOL address limb i with the geometry of bytes_of_* (output limb i depends only on input limb i, uses all of it, zero beyond). The value of pipelines is NOT decided.',
   note='N<=16 quick / 64 thorough', ref='DESIGN 3/C16'),
 'C05': dict(cat='other', tech='static analysis: symbolic evaluation of the kernels (data abstract) + ring-normal-form rewriting proof of the digit/carry identity; ordered call-trace of the limb loop from the region engine',
   text='Proves in+carry_in = out+2^k*carry_out in Z/2^64 for each of the six argument shapes of znx_normalize and every k of the domain (helpers recognised by idiom; unknown idiom = exit 2), that the argument shapes agree, and the limb-loop structure (order, carry-only passes, zero extension, carry buffer, exact limb selection of the range variant) for every (res_size,a_size) of the box incl. 0. Does not decide integer ranges (|a_i|<=2^62) nor uniqueness of the expansion as a statement about integers.',
   note='bit-vector axiom 2^k*ashr(t-D(t),k)=t-D(t); box for shapes', ref='DESIGN 3/C05'),
 'C07': dict(cat='other', tech='static analysis: dispatch instantiation on both CPU configurations, footprint comparison of region summaries, E4 normal-form comparison (ring polynomials / real polynomials / exact lane maps) of the expressions stored by paired kernels',
   text='Every accelerated symbol is paired by name with its reference (frozen table; new unpaired symbol = exit 2); constructors select accelerated kernels only as listed partners of the generic choice; each pair, each public dispatcher and each AVX-capable module function has the same write/read footprint and stores expressions with equal normal forms on the box (fp: equality as real polynomials = same function up to rounding order). Assembly kernels: footprint only. Magic-constant conversions vs rint/sitofp and lazy q120 values: counted not comparable, never violations.',
   note='rounding behaviour not compared; asm arithmetic not modelled; box m,N<=16 (quick)', ref='DESIGN 3/C07'),
 'C08': dict(cat='other', tech='static analysis: region engine write sets + E4 ring normal forms of every stored coefficient against op(a_i or 0, b_i or 0)',
   text='For zero/copy/negate/add/sub/rotate/automorphism and the nine big variants, both module types and CPU paths, all orderings of limb counts in the box incl. 0 and strides > N: the write set is exactly the N coefficients of the first res_size limbs and each stored coefficient is the documented operation of the zero-extended input limbs (as a polynomial over Z/2^64 in the initial input contents); rotate/automorphism limbs are signed permutations of the same input limb and zero beyond the input (which permutation: C09, N/A).',
   note='box for shapes; all data covered', ref='DESIGN 3/C08'),
 'C17': dict(cat='other', tech='static analysis: E4 symbolic lane-wise evaluation; stored expressions compared with layout maps and complex-arithmetic definitions as exact copy maps / real polynomials',
   text='Block extract/save (reim4, strided, q120x2) are the documented copy maps and mutually inverse; cplx<->reim4 conversion is a bijection of all m numbers with real/imaginary parts of 4 consecutive numbers per block and round trip = identity; reim4 dot products, reim/reim4/cplx mul and addmul (incl. undispatched SSE/AVX-512 kernels) and the windowed convolution equal the complex-arithmetic definition as polynomials over the reals for every length of the box incl. 0, both CPU paths. The rounding bound itself is not decided.',
   note='rounding order abstracted; m<=64 (quick)', ref='DESIGN 3/C17'),
 'C11': dict(cat='other', tech='static analysis: abstract interpretation of LLVM IR with closed-form loop acceleration (exact modular trip counts) producing symbolic strided access regions, instantiated on a box of shape tuples and checked against a frozen memory contract',
   text='For every contract entry (28 module-level functions, ~100 exported kernels), both module types, both CPU dispatch paths and every shape of an explicit box including all zero/unequal/threshold corners: reads/writes inside declared extents and inside the bytes returned by the library\'s own bytes_of_*/tmp_bytes functions, outputs fully written, no read of unwritten output/scratch, tables read-only and in bounds, no wrapped loop bound, size functions pure, new/delete pairing, no alignment-sensitive access on caller buffers. Data values are abstract (all inputs covered); shapes are covered on the box, not for all sizes.',
   note='trusted: clang/LLVM-14 IR + canonicalisation passes, irdump, spqa.contract/spqa.kernels tables (transcribed from the headers), asm scan of the four .s kernels; data-dependent sanity checks of table contents (if (...) abort()) assumed to pass', ref='DESIGN 2/E3, 3/C11'),
 'C12': dict(cat='other', tech='static analysis: interprocedural may-write/may-read effect analysis by pointer provenance over the dispatch-resolved call graph + dominance rule on static-cache writes',
   text='Sound sufficient condition: no function taking a MODULE/PRECOMP may write or free a global or memory reachable from the table, nor read a static that library code writes (all dispatch candidates, flow-insensitive => every input/shape/interleaving); *_simple caches are only written behind an empty-slot test. Does not decide concurrent first calls of *_simple functions (documented unsupported).',
   note='trusted: clang/LLVM-14 IR, irdump, role table tables/roles.json; assembly kernels modelled as writing only their data arguments', ref='DESIGN 3/C12'),
 'C13': dict(cat='other', tech='static analysis: ordered access summaries with parameter provenance; flow-dependence rule under the aliasing substitution out == in',
   text='For every documented aliasing pattern (module API and kernels), both CPU paths, every limb-count combination of the box incl. unequal sizes: no byte is read through the input parameter after it was written through the output parameter, so the aliased call computes what the out-of-place call computes; other memory obligations re-checked while aliased. The values produced by the dedicated in-place rotation/automorphism kernels are C09 (not applicable).',
   note='trusted as C11; aliasing = same pointer and stride', ref='DESIGN 3/C13'),
 'C14': dict(cat='other', tech='static analysis: exhaustive instantiation of the conversion-table constructors over their finite parameter domain (narrow-integer overflow before widening, kernel selection vs documented windows)',
   text='Decides the structural clauses only: (a) no magic constant is computed in a type that overflows on the admitted parameter domain, (b) every (m,bound) admitted by a constructor selects a kernel whose documented window covers the bound, on both CPU paths, (c) stored dimension equals the argument. Does NOT decide that the mantissa tricks round correctly (numeric).',
   note='WINDOWS table transcribed from kernel names/comments; rounding correctness not decided', ref='DESIGN 3/C14'),
 'C15': dict(cat='other', tech='static analysis: global-state inventory, backward data-flow slices for cache keys vs constructor dependencies, provenance of alignment-sensitive accesses',
   text='Decides the history/alignment clauses structurally: every mutable static is a verified memoisation cache whose key covers every constructor parameter the table depends on; table-taking functions touch no static; no alignment-sensitive access on caller buffers. Dependence on prior contents of out/scratch is decided by the region engine (C11).',
   note='trusted as C12; log2m injective on powers of two', ref='DESIGN 3/C15'),
 'C18': dict(cat='other', tech='static analysis: interprocedural may-write/may-free effect analysis by pointer provenance (all dispatch candidates), checked against a frozen role table',
   text='Sound over-approximation valid for every shape, input and aliasing of other arguments: an operand with role in/table is never in MayWrite/MayFree of the function. Documented exceptions come from the role table.',
   note='trusted: clang/LLVM-14 IR, irdump, tables/roles.json (roles derived from const qualifiers in DWARF + reviewed overrides)', ref='DESIGN 3/C18'),
}
NA = {}
for p in props:
    if p['id'] not in CLAIMED:
        NA[p['id']] = 'check not built yet (implementation in progress, see DESIGN.md section 5)'
NA['C09'] = 'number-theoretic identity about index orbits (j+p mod 2N, j*p mod 2N, cycle leaders): nothing in the shape of the code distinguishes a correct orbit walk from a wrong one; deciding it means enumerating (N,p) executions, a different technique family. Wrapper forwarding and in-place guards are decided under C08/C13.'
NA.update(json.load(open('/verif/tables/na_reasons.json')) if __import__('os').path.exists('/verif/tables/na_reasons.json') else {})
m = {"version": 1, "setup_cmd": "make -C /verif/tools",
     "hooks": {"guard": "SPQLIOS_VERIF", "enable": "none needed: the analyses read LLVM IR compiled from the unmodified sources of /repo's working tree",
               "baseline_off_cmd": "cmake -G Ninja -S /repo -B /repo/_build -DCMAKE_BUILD_TYPE=RelWithDebInfo && cmake --build /repo/_build -j16 && ctest --test-dir /repo/_build -j8 --timeout 900",
               "source_commits": [], "add_only": True},
     "engines": [{"name": "spqa", "path": "spqa/", "serves_properties": sorted(CLAIMED), "kind_free_text": "custom static analyser over per-unit LLVM-14 IR (irdump JSON): dispatch-resolved call graph, provenance effects, region summaries, value DAGs, intervals"}],
     "checks": [], "notes": "static analysis only; see DESIGN.md. exit 2 = analysis broken (never a pass or a violation).",
     "not_applicable": [{"property_id": k, "reason": v} for k, v in sorted(NA.items()) if k not in CLAIMED]}
for pid in sorted(CLAIMED):
    c = CLAIMED[pid]
    m['checks'].append({"property_id": pid, "quick_cmd": "./check %s --tier quick" % pid, "thorough_cmd": "./check %s --tier thorough" % pid,
                        "evidence_file": "evidence/%s.json" % pid, "replay_cmd_template": "./check --replay {path}", "engine": "spqa",
                        "level_claimed": {"category": c['cat'], "text": c['text'], "design_ref": c['ref']}, "level_note": c['note'], "technique": c['tech']})
json.dump(m, open('/verif/MANIFEST.json', 'w'), indent=1)
import jsonschema
jsonschema.validate(m, json.load(open('/root/.vp/MANIFEST.schema.json')))
print('MANIFEST ok:', len(m['checks']), 'checks,', len(m['not_applicable']), 'n/a')
