import sys, time; sys.setrecursionlimit(100000)
from spqa import ctx
from spqa.kernels import KBox
from spqa.convspec import specs, configurations, lanes_of
from spqa.fpbits import analyse
from spqa.values import fmt
L=ctx.lib(); box=KBox(L); S=specs()
only = sys.argv[1:] 
for name, sh, win, parts, want, inbits, check, text in configurations('quick'):
    if only and name not in only: continue
    spec, inbuf, kind = S[name]
    for cpu in ('accel','generic'):
        t=time.time()
        r=box.instantiate(name, spec, {k:(float(v) if k=='d' else v) for k,v in sh.items()}, cpu, expand='values')
        if r.status!='ok': print(name, sh, cpu, 'status', r.status); continue
        lanes, err = lanes_of(r, 'r', inbuf)
        if err: print(name, sh, cpu, 'ERR', err); continue
        for root, off in lanes.items():
            R=analyse(root, parts, want, inbits, check)
            print(name, {k:str(v) for k,v in sh.items()}, cpu, 'lane+%d'%off, 'parts', R.partitions, 'single', R.singletons, 'VIOL' if R.violation else '', R.violation or '', 'UNK '+R.unknown if R.unknown else '', '%.1fs'%(time.time()-t), fmt(root)[:90] if (R.violation or R.unknown) else '')
