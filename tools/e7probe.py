import sys, time, threading; sys.setrecursionlimit(1000000); threading.stack_size(512*1024*1024)
def main():
    from math import log2
    from spqa import ctx
    from spqa.kernels import KERNELS, KBox
    from spqa.fperr import analyse_dag as analyse, NoVerdict
    L=ctx.lib(); K=KERNELS('quick'); box=KBox(L)
    names=sys.argv[1].split(','); ms=[int(x) for x in sys.argv[2].split(',')]; cpu=sys.argv[3] if len(sys.argv)>3 else 'generic'
    for name in names:
      for m in ms:
        t=time.time()
        c=box.get(cpu,'values')
        spec=K[name]
        orig=c.buf
        holder={}
        def buf(nm, nb, role, orig=orig):
            p=orig(nm, nb, role)
            if nm=='data':
                p.obj.onestep={'gen':{}, 'defs':{}}
                holder['obj']=p.obj
            return p
        c.buf=buf
        c.m.record=False
        try:
            r=box.instantiate(name, spec, {'m':m}, cpu, expand='values')
        finally:
            c.buf=orig; c.m.record=True
        defs=holder['obj'].onestep['defs']
        t1=time.time()-t
        try:
            res=analyse(defs, name, m)
            print(name, m, cpu, r.status, 'defs', len(defs), 'levels', res['levels'], 'bound %.2f u' % res['bound_in_u'], 'property %.2f u' % (8*log2(2*m)), 'const err %.2f u'%res['worst_constant_error_in_u'], 'run %.1fs total %.1fs'%(t1, time.time()-t), 'blocksizes', sorted({p['block_size'] for p in res['per_level']}), 'max level rounding %.2f twiddle %.2f' % (max([p['rounding'] for p in res['per_level']] or [0]), max([p['twiddle'] for p in res['per_level']] or [0])), flush=True)
            if len(sys.argv)>4:
                for p_ in res['per_level']: print('     ', p_)
        except NoVerdict as e:
            print(name, m, cpu, 'NO VERDICT', e, flush=True)
th=threading.Thread(target=main); th.start(); th.join()
