#!/usr/bin/env python3
"""tools/seed.py — handle seeded defects.
  seed.py import <worktree> <id>   copy <worktree>/_seed into /verif/seeded/<id>, verify claims in the worktree
  seed.py run <id> [checks...]     apply seeded/<id>/patch.diff to /repo, run the checks (default: all claimed), revert"""
import json, os, shutil, subprocess, sys, time

VERIF = '/verif'


def sh(cmd, cwd=None, timeout=3600):
    r = subprocess.run(cmd, shell=True, cwd=cwd, stdout=subprocess.PIPE, stderr=subprocess.STDOUT, text=True, timeout=timeout)
    return r.returncode, r.stdout


def do_import(wt, sid):
    d = os.path.join(VERIF, 'seeded', sid)
    os.makedirs(d, exist_ok=True)
    for f in os.listdir(os.path.join(wt, '_seed')):
        p = os.path.join(wt, '_seed', f)
        if os.path.isfile(p) and os.path.getsize(p) < 2_000_000 and not f.endswith('.o') and f not in ('demo', 'a.out'):
            shutil.copy(p, d)
    res = {}
    # modified: build, tests, demo
    rc, out = sh('cmake --build build -j8 2>&1 | tail -2 && ctest --test-dir build --timeout 900 2>&1 | tail -3', cwd=wt)
    res['tests_modified'] = '100% tests passed' in out
    rc, out = sh('sh _seed/build_demo.sh %s 2>&1 | tail -5' % wt, cwd=wt)
    rcm, _ = sh('sh _seed/build_demo.sh %s >/dev/null 2>&1' % wt, cwd=wt)
    res['demo_modified_rc'] = rcm
    res['demo_modified_out'] = out[-300:]
    # original
    sh('git stash -q -- spqlios', cwd=wt)
    try:
        sh('cmake --build build -j8 2>&1 | tail -2', cwd=wt)
        rco, out = sh('sh _seed/build_demo.sh %s 2>&1 | tail -3' % wt, cwd=wt)
        rco2, _ = sh('sh _seed/build_demo.sh %s >/dev/null 2>&1' % wt, cwd=wt)
        res['demo_original_rc'] = rco2
        res['demo_original_out'] = out[-200:]
    finally:
        sh('git stash pop -q', cwd=wt)
        sh('cmake --build build -j8 2>&1 | tail -1', cwd=wt)
    rc, out = sh('git apply --check %s' % os.path.join(d, 'patch.diff'), cwd='/repo')
    res['applies_to_repo'] = rc == 0
    res['confirmed'] = bool(res['tests_modified'] and res['demo_modified_rc'] != 0 and res['demo_original_rc'] == 0 and res['applies_to_repo'])
    json.dump(res, open(os.path.join(d, 'verification.json'), 'w'), indent=1)
    print(json.dumps(res, indent=1))


def do_run(sid, checks):
    d = os.path.join(VERIF, sid) if '/' in sid else os.path.join(VERIF, 'seeded', sid)
    man = json.load(open(os.path.join(VERIF, 'MANIFEST.json')))
    if not checks:
        checks = [c['property_id'] for c in man['checks']]
    # the patch is applied in a scratch worktree of /repo (never in /repo itself); the checks read it through SPQA_REPO.
    # evidence files are written to a scratch directory so that the committed evidence is not disturbed.
    wt = '/tmp/seedrun-%s-%d' % (sid.replace('/', '-'), os.getpid())
    sh('git worktree add --detach %s HEAD' % wt, cwd='/repo')
    results = {}
    try:
        rc, out = sh('git apply %s' % os.path.join(d, 'patch.diff'), cwd=wt)
        if rc:
            print('patch does not apply:', out)
            return
        for c in checks:
            t = time.time()
            rc, out = sh('SPQA_REPO=%s SPQA_EVIDENCE=%s/_ev ./check %s --tier quick 2>&1' % (wt, wt, c), cwd=VERIF)
            v = [l for l in out.splitlines() if 'refuted:' in l][:3]
            results[c] = {'exit': rc, 'wall': round(time.time() - t, 1), 'first': [x[:260] for x in v]}
            print(c, rc, v[0][:220] if v else '')
    finally:
        sh('git worktree remove --force %s' % wt, cwd='/repo')
        sh('git worktree prune', cwd='/repo')
    dp = os.path.join(d, 'detection.json')
    if os.path.exists(dp) and len(results) < len(man['checks']):
        # a partial rerun updates the rows it ran and keeps the others
        old = json.load(open(dp))
        old.update(results)
        results = dict(sorted(old.items()))
    json.dump(results, open(dp, 'w'), indent=1)
    print('caught by:', [c for c, r in results.items() if r['exit'] == 1], ' broken:', [c for c, r in results.items() if r['exit'] == 2])


if __name__ == '__main__':
    if sys.argv[1] == 'import':
        do_import(sys.argv[2], sys.argv[3])
    else:
        do_run(sys.argv[2], sys.argv[3:])
